package main

import (
	"bufio"
	"encoding/json"
	"fmt"
	"io"
	"os"
	"path/filepath"
	"regexp"
	"sort"
	"strings"
	"sync"
	"sync/atomic"
	"time"
)

// Step is one element of a tour: the operation and the reply the
// specification predicts.
type Step struct {
	Op    Op   `json:"op"`
	R     Op   `json:"r"`
	Audit bool `json:"audit,omitempty"`
}

// Mismatch is a confirmed disagreement between code and specification.
type Mismatch struct {
	Property string   `json:"property"`
	System   string   `json:"system"`
	Opts     SysOpts  `json:"opts"`
	Seed     int64    `json:"seed"`
	Salt     int64    `json:"salt"`
	KeyMode  int      `json:"keymode"`
	Thorough bool     `json:"thorough"`
	Small    bool     `json:"small"`
	Reopen   bool     `json:"reopen"`
	Addr     string   `json:"addr,omitempty"`
	Tour     []Step   `json:"tour"`
	At       int      `json:"at"` // index of the failing step
	Msgs     []string `json:"msgs"`
	Observed string   `json:"observed"`
	Finding  string   `json:"finding,omitempty"`
}

func (m *Mismatch) Signature() string {
	msg := ""
	if len(m.Msgs) > 0 {
		msg = m.Msgs[0]
	}
	// normalise concrete values out of the message
	re := regexp.MustCompile(`"[^"]*"|[0-9a-f]{16,}|\d+`)
	msg = re.ReplaceAllString(msg, "_")
	if len(msg) > 80 {
		msg = msg[:80]
	}
	return m.System + "|" + m.Tour[m.At].Op.S("op") + "|" + msg
}

// Finding is an entry of known_findings.json.
type Finding struct {
	ID       string `json:"id"`
	Property string `json:"property"`
	Status   string `json:"status"` // open | fixed
	Commit   string `json:"commit,omitempty"`
	Sys      string `json:"sys"` // regexp on system name
	Op       string `json:"op"`  // regexp on failing op
	Msg      string `json:"msg"` // regexp on first message
	Pre      string `json:"pre,omitempty"`
	Desc     string `json:"description"`
}

type Findings struct {
	List []Finding `json:"findings"`
}

func loadFindings(path string) *Findings {
	f := &Findings{}
	b, err := os.ReadFile(path)
	if err != nil {
		return f
	}
	if err := json.Unmarshal(b, f); err != nil {
		fmt.Fprintln(os.Stderr, "known_findings.json:", err)
		os.Exit(2)
	}
	return f
}

// Classify returns the id of the open finding that explains the mismatch.
func (f *Findings) Classify(m *Mismatch, property string) string {
	for _, k := range f.List {
		if k.Status != "open" {
			continue
		}
		if k.Property != "" && property != "" && !strings.Contains(k.Property, property) {
			continue
		}
		if ok, _ := regexp.MatchString("^(?:"+k.Sys+")$", m.System); !ok {
			continue
		}
		if ok, _ := regexp.MatchString("^(?:"+k.Op+")$", m.Tour[m.At].Op.S("op")); !ok {
			continue
		}
		if ok, _ := regexp.MatchString(k.Msg, strings.Join(m.Msgs, "\n")); !ok {
			continue
		}
		if k.Pre != "" {
			found := false
			for i := 0; i < m.At; i++ {
				if ok, _ := regexp.MatchString("^(?:"+k.Pre+")$", m.Tour[i].Op.S("op")); ok {
					found = true
				}
			}
			if !found {
				continue
			}
		}
		return k.ID
	}
	return ""
}

// RunCfg says how tours are executed.
type RunCfg struct {
	Property string
	Systems  []string
	Opts     SysOpts
	Seed     int64
	Thorough bool
	Small    bool // bodies at most ~100 bytes (large tours)
	KeyModes []int
	Large    bool // body sizes around 1 MiB and of several MiB
	Reopen   bool // C15: close and reopen before every read-only tail / at the end
	Workers  int
	Addr     string // "", "host:<base>", "slashes", "api" (Backend methods called directly)
}

// runTour executes one tour on a fresh system; returns the first mismatch.
func runTour(cfg *RunCfg, sysName string, salt int64, keyMode int, tour []Step) (*Mismatch, int, error) {
	sys, err := NewSystem(sysName, cfg.Opts)
	if err != nil {
		return nil, 0, err
	}
	defer sys.Close()
	conc := NewConc(cfg.Seed, salt, cfg.Thorough)
	conc.keyMode = keyMode
	conc.small = cfg.Small
	if cfg.Large {
		conc.sizes = sizeClassesLarge
	}
	x := NewExec(sys, conc)
	addr := cfg.Addr
	if i := strings.Index(addr, "+q="); i >= 0 {
		x.ObjQuery = addr[i+3:]
		addr = addr[:i]
	}
	if strings.HasSuffix(addr, "+rawpath") {
		addr = strings.TrimSuffix(addr, "+rawpath")
		x.RawPath = true
	}
	switch {
	case strings.HasPrefix(addr, "host:"):
		x.Addr = hostStyle(addr[5:])
	case addr == "slashes":
		x.Addr = extraSlashes
	case addr == "api":
		x.Api = true
	case strings.HasPrefix(addr, "plainhost:"):
		x.Host = addr[10:]
	}
	steps := 0
	for i, st := range tour {
		lastStep := !st.Audit && i > 0 && (i == len(tour)-1 || tour[i+1].Audit)
		if (cfg.Opts.ReopenMid && lastStep) ||
			(cfg.Reopen && ((st.Audit && (i == 0 || !tour[i-1].Audit)) || (i == len(tour)-1 && !st.Audit))) {
			if err := sys.Reopen(); err != nil {
				return &Mismatch{System: sysName, Tour: tour, At: i, Msgs: []string{"reopen failed: " + err.Error()}}, steps, nil
			}
			x.Sys = sys
		}
		obs := x.Do(st.Op)
		if obs.NoReq && x.Api {
			// no counterpart on the Go API path: the rest of the history would run on a different state
			return nil, steps, nil
		}
		steps++
		if bad := x.Compare(st.Op, st.R, obs); len(bad) > 0 {
			return &Mismatch{
				Property: cfg.Property, System: sysName, Opts: cfg.Opts, Seed: cfg.Seed, Salt: salt, KeyMode: keyMode,
				Thorough: cfg.Thorough, Small: cfg.Small, Reopen: cfg.Reopen, Addr: cfg.Addr,
				Tour: tour, At: i, Msgs: bad,
				Observed: fmt.Sprintf("%d %s", obs.Status, short(obs.Body)),
			}, steps, nil
		}
	}
	return nil, steps, nil
}

type ReplaySummary struct {
	Tours       int                  `json:"tours"`
	Executions  int                  `json:"executions"` // tour x system x keymode
	Steps       int                  `json:"steps"`
	PerSystem   map[string]int       `json:"per_system"`
	OpsSeen     map[string]int       `json:"ops_seen"`
	Mismatches  []*Mismatch          `json:"mismatches"` // confirmed, unknown
	Known       map[string]int       `json:"known"`      // finding id -> count
	KnownEx     map[string]*Mismatch `json:"known_examples"`
	Unconfirmed int                  `json:"unconfirmed"`
	Samples     []json.RawMessage    `json:"samples"`
	SigCounts   map[string]int       `json:"signature_counts"`
	WallS       float64              `json:"wall_s"`
}

// replayTours reads tours (one JSON-string-encoded array per line, as TLC's
// PrintT(ToJson(hist')) writes them, or plain JSON arrays) and replays each
// on every configured system.
func replayTours(in io.Reader, cfg *RunCfg, findings *Findings, maxReport int) *ReplaySummary {
	start := time.Now()
	sum := &ReplaySummary{PerSystem: map[string]int{}, OpsSeen: map[string]int{}, Known: map[string]int{},
		KnownEx: map[string]*Mismatch{}, SigCounts: map[string]int{}}
	type job struct {
		idx  int
		tour []Step
	}
	jobs := make(chan job, 256)
	var hangs int32
	var mu sync.Mutex
	var wg sync.WaitGroup
	if cfg.Workers <= 0 {
		cfg.Workers = 8
	}
	for w := 0; w < cfg.Workers; w++ {
		wg.Add(1)
		go func() {
			defer wg.Done()
			for j := range jobs {
				if atomic.LoadInt32(&hangs) >= 2 {
					continue // the server under test hangs: stop spending a deadline per tour
				}
				for _, sysName := range cfg.Systems {
					rotations := 1
					if cfg.Large {
						rotations = len(sizeClassesLarge) // every atom takes every large size class once
					}
					for _, km0 := range cfg.KeyModes {
						for rot := 0; rot < rotations; rot++ {
							km := km0
							salt := int64(j.idx) + int64(rot)*saltShiftUnit
							m, steps, err := runTour(cfg, sysName, salt, km, j.tour)
							if err != nil {
								fmt.Fprintln(os.Stderr, "harness error:", err)
								os.Exit(2)
							}
							var confirmed *Mismatch
							if m != nil {
								// rule 4: re-execute on a fresh instance before believing it
								m2, _, _ := runTour(cfg, sysName, salt, km, j.tour)
								if m2 != nil && m2.At == m.At {
									confirmed = m2
								}
							}
							mu.Lock()
							sum.Executions++
							sum.Steps += steps
							sum.PerSystem[sysName]++
							if m != nil && confirmed == nil {
								sum.Unconfirmed++
							}
							if confirmed != nil && len(confirmed.Msgs) > 0 && strings.Contains(confirmed.Msgs[0], "did not return within the deadline") {
								atomic.AddInt32(&hangs, 1)
							}
							if confirmed != nil {
								if id := findings.Classify(confirmed, cfg.Property); id != "" {
									confirmed.Finding = id
									sum.Known[id]++
									if sum.KnownEx[id] == nil || len(confirmed.Tour) < len(sum.KnownEx[id].Tour) {
										sum.KnownEx[id] = confirmed
									}
								} else {
									sig := confirmed.Signature()
									sum.SigCounts[sig]++
									if sum.SigCounts[sig] <= 2 && len(sum.Mismatches) < maxReport {
										sum.Mismatches = append(sum.Mismatches, confirmed)
									} else {
										// keep the shortest example per signature
										for i, o := range sum.Mismatches {
											if o.Signature() == sig && len(confirmed.Tour) < len(o.Tour) {
												sum.Mismatches[i] = confirmed
												break
											}
										}
									}
								}
							}
							mu.Unlock()
						}
					}
				}
			}
		}()
	}
	rd := bufio.NewReaderSize(in, 1<<20)
	idx := 0
	for {
		line, err := rd.ReadString('\n')
		if len(line) > 0 {
			tour := parseTourLine(line)
			if tour != nil {
				idx++
				for _, s := range tour {
					sum.OpsSeen[s.Op.S("op")]++
				}
				if len(sum.Samples) < 3 && (idx%997 == 1) {
					b, _ := json.Marshal(tour)
					sum.Samples = append(sum.Samples, b)
				}
				jobs <- job{idx, tour}
			}
		}
		if err != nil {
			break
		}
	}
	close(jobs)
	wg.Wait()
	sum.Tours = idx
	sum.WallS = time.Since(start).Seconds()
	sort.Slice(sum.Mismatches, func(i, j int) bool { return len(sum.Mismatches[i].Tour) < len(sum.Mismatches[j].Tour) })
	return sum
}

// parseTourLine accepts a tour as TLC prints it: a JSON string holding either
// an array of steps or an object {h: history steps, a: audit steps}.  Audit
// steps are read-only probes of the whole observable state after the last
// history step, with replies predicted by the specification.
func parseTourLine(line string) []Step {
	line = strings.TrimSpace(line)
	if strings.HasPrefix(line, `"[`) || strings.HasPrefix(line, `"{`) {
		var s string
		if err := json.Unmarshal([]byte(line), &s); err != nil {
			return nil
		}
		line = s
	}
	var tour []Step
	switch {
	case strings.HasPrefix(line, "["):
		if err := json.Unmarshal([]byte(line), &tour); err != nil {
			fmt.Fprintln(os.Stderr, "bad tour line:", err)
			os.Exit(2)
		}
	case strings.HasPrefix(line, "{"):
		var t struct {
			H []Step `json:"h"`
			A []Step `json:"a"`
		}
		if err := json.Unmarshal([]byte(line), &t); err != nil {
			fmt.Fprintln(os.Stderr, "bad tour line:", err)
			os.Exit(2)
		}
		for i := range t.A {
			t.A[i].Audit = true
		}
		tour = append(t.H, t.A...)
	default:
		return nil
	}
	return tour
}

// writeReplay stores a mismatch as a replay file and returns its path.
func writeReplay(dir string, m *Mismatch) string {
	os.MkdirAll(dir, 0755)
	b, _ := json.MarshalIndent(m, "", " ")
	name := fmt.Sprintf("%s-%s-%016x.json", m.Property, m.System, hash64(string(b)))
	p := filepath.Join(dir, name)
	os.WriteFile(p, b, 0644)
	return p
}
