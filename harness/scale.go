package main

// Scale walks: stores with more than 1000 entries, so that the server's own
// default page limits (1000 keys / versions / parts / uploads) come into play,
// walked with the continuation the server hands back and with no max-*
// parameter at all, with exactly the limit, one less, and smaller pages.  The
// recorded walks are validated by TraceWalk like the small ones; the store
// content is what the harness itself wrote (it made every request and saw
// every reply).

import (
	"bufio"
	"encoding/json"
	"encoding/xml"
	"flag"
	"fmt"
	"os"
	"strconv"
	"strings"
)

type scaleRun struct {
	sys  *System
	x    *Exec
	w    *walker
	name string
}

func newScaleRun(sysName string, seed int64) (*scaleRun, error) {
	sys, err := NewSystem(sysName, SysOpts{})
	if err != nil {
		return nil, err
	}
	x := NewExec(sys, NewConc(seed, 0, false))
	if !sys.Single() {
		if o := x.Do(Op{"op": "CreateBucket", "b": "bkt1"}); o.Status != 200 {
			sys.Close()
			return nil, fmt.Errorf("create bucket: %d", o.Status)
		}
	}
	return &scaleRun{sys: sys, x: x, w: &walker{x: x}, name: sysName}, nil
}

func (s *scaleRun) put(key string, body []byte) (*Observed, error) {
	r := newReq("PUT", "/bkt1/"+key)
	r.setBody(body)
	o := s.x.Serve(r)
	if o.Status != 200 {
		return o, fmt.Errorf("PUT %s: %d %s", key, o.Status, o.ErrCode())
	}
	return o, nil
}

// walks with: no max parameter (judged against the default limit), the limit, one less, and smaller pages
func (s *scaleRun) sizes(limit int, small ...int) [][2]int { // (max, omit)
	out := [][2]int{{limit, 1}, {limit, 0}, {limit - 1, 0}}
	for _, m := range small {
		out = append(out, [2]int{m, 0})
	}
	return out
}

func scaleObjects(sysName string, n int, seed int64) ([]wEvent, error) {
	s, err := newScaleRun(sysName, seed)
	if err != nil {
		return nil, err
	}
	defer s.sys.Close()
	var live []wEntry
	add := func(key string, i int) error {
		body := []byte(fmt.Sprintf("body of %s #%d", key, i))
		if _, err := s.put(key, body); err != nil {
			return err
		}
		live = append(live, wEntry{K: fromBytes(key), ID: "", A: fmt.Sprintf("%d/%s", len(body), quoteETag(body))})
		return nil
	}
	for i := 0; i < n; i++ {
		if err := add(fmt.Sprintf("d/%04d", i), i); err != nil {
			return nil, err
		}
	}
	for i := 0; i < 20; i++ {
		if err := add(fmt.Sprintf("e/%02d", i), i); err != nil {
			return nil, err
		}
	}
	for i := 0; i < 25; i++ {
		if err := add(fmt.Sprintf("k%02d", i), i); err != nil {
			return nil, err
		}
	}
	for _, q := range [][2]string{{"", ""}, {"", "/"}, {"d/", "/"}, {"d/", ""}, {"d/09", ""}} {
		for _, m := range s.sizes(1000, 400) {
			for _, v2 := range []bool{false, true} {
				s.w.omitMax = m[1] == 1
				s.w.walkObjects("bkt1", live, q[0], q[1], m[0], v2)
			}
		}
	}
	s.w.omitMax = false
	// small pages over the grouped listing: a page ends at a common prefix that stands for a thousand keys
	for _, max := range []int{1, 2, 3} {
		for _, v2 := range []bool{false, true} {
			s.w.walkObjects("bkt1", live, "", "/", max, v2)
		}
	}
	return s.w.out, nil
}

func scaleVersions(sysName string, n int, seed int64) ([]wEvent, error) {
	evs, err := scaleVersionsN(sysName, n, seed, false)
	if err != nil {
		return nil, err
	}
	// a key with 70 versions followed by other keys, every small page size (page boundaries at every position of a
	// long version list, in particular on its current version)
	evs2, err := scaleVersionsN(sysName, 70, seed, true)
	return append(evs, evs2...), err
}

func scaleVersionsN(sysName string, n int, seed int64, smallPages bool) ([]wEvent, error) {
	s, err := newScaleRun(sysName, seed)
	if err != nil {
		return nil, err
	}
	defer s.sys.Close()
	if o := s.x.Do(Op{"op": "PutVersioning", "b": "bkt1", "status": "Enabled"}); o.Status != 200 {
		return nil, fmt.Errorf("enable versioning: %d", o.Status)
	}
	type ver struct {
		key, vid, attr string
		dm             bool
	}
	var all []ver
	put := func(key string, i int) error {
		body := []byte(fmt.Sprintf("version %d of %s", i, key))
		o, err := s.put(key, body)
		if err != nil {
			return err
		}
		all = append(all, ver{key: key, vid: o.Header.Get("x-amz-version-id"), attr: fmt.Sprintf("obj/%d/%s", len(body), quoteETag(body))})
		return nil
	}
	for i := 0; i < 2; i++ {
		if err := put("a", i); err != nil {
			return nil, err
		}
	}
	for i := 0; i < n; i++ {
		if err := put("v", i); err != nil {
			return nil, err
		}
	}
	for i := 0; i < 3; i++ {
		if err := put("w", i); err != nil {
			return nil, err
		}
	}
	d := s.x.Serve(newReq("DELETE", "/bkt1/w"))
	if d.Status != 204 {
		return nil, fmt.Errorf("DELETE w: %d", d.Status)
	}
	all = append(all, ver{key: "w", vid: d.Header.Get("x-amz-version-id"), attr: "dm", dm: true})
	// the newest entry of each key is the latest one
	latest := map[string]int{}
	for i, v := range all {
		latest[v.key] = i
	}
	var live []wEntry
	for i, v := range all {
		a := fmt.Sprintf("%s/%v", v.attr, latest[v.key] == i)
		live = append(live, wEntry{K: fromBytes(v.key), ID: v.vid, A: a, Ord: -i})
	}
	s.w.liveOverride = live
	if smallPages {
		for _, max := range []int{1, 2, 3, 4, 5, 7, 9, 10, 35, 36, 64, 70, 71, 72, 73} {
			s.w.walkVersions("bkt1", "", "", max)
		}
		return s.w.out, nil
	}
	for _, q := range [][2]string{{"", ""}, {"", "/"}, {"v", ""}} {
		for _, m := range s.sizes(1000, 300) {
			s.w.omitMax = m[1] == 1
			s.w.walkVersions("bkt1", q[0], q[1], m[0])
		}
	}
	return s.w.out, nil
}

func scaleParts(sysName string, n int, seed int64) ([]wEvent, error) {
	s, err := newScaleRun(sysName, seed)
	if err != nil {
		return nil, err
	}
	defer s.sys.Close()
	r := newReq("POST", "/bkt1/big")
	r.Query.Set("uploads", "")
	var in xInitiate
	if o := s.x.Serve(r); o.Status != 200 || xml.Unmarshal(o.Body, &in) != nil {
		return nil, fmt.Errorf("initiate: %d", o.Status)
	}
	s.x.Uids["u"] = in.UploadID
	var live []wEntry
	// part numbers 1..n and a few high ones (numbers above the page limit are legal: 1..10000)
	nums := []int{}
	for i := 1; i <= n; i++ {
		nums = append(nums, i)
	}
	nums = append(nums, 2500, 4095, 4096, 4097, 8192, 9999, 10000)
	for _, pn := range nums {
		body := []byte(fmt.Sprintf("part %d", pn))
		rp := newReq("PUT", "/bkt1/big")
		rp.Query.Set("uploadId", in.UploadID)
		rp.Query.Set("partNumber", strconv.Itoa(pn))
		rp.setBody(body)
		if o := s.x.Serve(rp); o.Status != 200 {
			return nil, fmt.Errorf("upload part %d: %d %s", pn, o.Status, o.ErrCode())
		}
		live = append(live, wEntry{K: []interface{}{float64(pn / 256), float64(pn % 256)}, ID: strconv.Itoa(pn),
			A: fmt.Sprintf("%d/%s", len(body), quoteETag(body))})
	}
	s.w.liveOverride = live
	up := Op{"b": "bkt1", "k": fromBytes("big"), "uid": "u", "parts": []interface{}{}}
	for _, m := range s.sizes(1000, 400) {
		s.w.omitMax = m[1] == 1
		s.w.walkParts(up, m[0])
	}
	return s.w.out, nil
}

func scaleUploads(sysName string, n int, seed int64) ([]wEvent, error) {
	s, err := newScaleRun(sysName, seed)
	if err != nil {
		return nil, err
	}
	defer s.sys.Close()
	var live []wEntry
	initiate := func(key string) error {
		r := newReq("POST", "/bkt1/"+key)
		r.Query.Set("uploads", "")
		var in xInitiate
		if o := s.x.Serve(r); o.Status != 200 || xml.Unmarshal(o.Body, &in) != nil {
			return fmt.Errorf("initiate %s: %d", key, o.Status)
		}
		live = append(live, wEntry{K: fromBytes(key), ID: in.UploadID, A: "", Ord: len(live)})
		return nil
	}
	// one key whose uploads were initiated far apart (server-issued ids of 1, 2, 3 and 4 digits, should ids be counters)
	mixAt := map[int]bool{0: true, 8: true, 9: true, 98: true, 99: true, 998: true}
	for i := 0; i < n; i++ {
		if mixAt[i] {
			if err := initiate("mix"); err != nil {
				return nil, err
			}
		}
		if err := initiate(fmt.Sprintf("u/%04d", i)); err != nil {
			return nil, err
		}
	}
	if err := initiate("mix"); err != nil {
		return nil, err
	}
	for i := 0; i < 6; i++ { // several uploads on one key, initiated last but sorting first
		if err := initiate("same"); err != nil {
			return nil, err
		}
	}
	s.w.liveOverride = live
	for _, q := range [][2]string{{"", ""}, {"", "/"}, {"u/", ""}} {
		for _, m := range s.sizes(1000, 400) {
			s.w.omitMax = m[1] == 1
			s.w.walkUploads(Op{}, "bkt1", q[0], q[1], m[0])
		}
	}
	// pages that end inside the key whose upload ids differ in length
	s.w.omitMax = false
	for _, max := range []int{1, 2, 3, 5} {
		s.w.walkUploads(Op{}, "bkt1", "mix", "", max)
	}
	// ... and the same after one of them, then another, has been aborted (exactly that one must be gone)
	var mix []int
	for i, e := range live {
		if toBytes(e.K) == "mix" {
			mix = append(mix, i)
		}
	}
	for _, victim := range []int{2, 0, len(mix) - 3} { // (positions among the remaining ones)
		if victim >= len(mix) {
			continue
		}
		idx := mix[victim]
		r := newReq("DELETE", "/bkt1/mix")
		r.Query.Set("uploadId", live[idx].ID)
		if o := s.x.Serve(r); o.Status != 204 {
			return nil, fmt.Errorf("abort mix/%s: %d %s", live[idx].ID, o.Status, o.ErrCode())
		}
		live = append(append([]wEntry{}, live[:idx]...), live[idx+1:]...)
		mix = nil
		for i, e := range live {
			if toBytes(e.K) == "mix" {
				mix = append(mix, i)
			}
		}
		s.w.liveOverride = live
		for _, max := range []int{1, 2, 1000} {
			s.w.walkUploads(Op{}, "bkt1", "mix", "", max)
		}
	}
	return s.w.out, nil
}

func cmdScale(args []string) {
	fs := flag.NewFlagSet("scale", flag.ExitOnError)
	kind := fs.String("kind", "objects", "objects|versions|parts|uploads")
	systems := fs.String("systems", "mem", "systems")
	n := fs.Int("n", 1005, "entries of the large group")
	seed := fs.Int64("seed", 1, "seed")
	trace := fs.String("trace", "", "NDJSON trace output")
	out := fs.String("out", "", "summary output")
	fs.Parse(args)
	defer cleanupTmp()
	tf, err := os.Create(*trace)
	if err != nil {
		fmt.Fprintln(os.Stderr, err)
		os.Exit(2)
	}
	tw := bufio.NewWriterSize(tf, 1<<20)
	enc := json.NewEncoder(tw)
	walks, events := 0, 0
	var problems []string
	for _, sysName := range strings.Split(*systems, ",") {
		var evs []wEvent
		var err error
		switch *kind {
		case "objects":
			evs, err = scaleObjects(sysName, *n, *seed)
		case "versions":
			evs, err = scaleVersions(sysName, *n, *seed)
		case "parts":
			evs, err = scaleParts(sysName, *n, *seed)
		case "uploads":
			evs, err = scaleUploads(sysName, *n, *seed)
		}
		if err != nil {
			problems = append(problems, sysName+": "+err.Error())
			continue
		}
		for _, e := range evs {
			e.Sys = sysName
			if e.T == "start" {
				walks++
				e.Pag = e.Pag && (sysName == "mem" || *kind == "parts" || *kind == "uploads")
			}
			enc.Encode(e)
			events++
		}
	}
	tw.Flush()
	tf.Close()
	b, _ := json.Marshal(map[string]interface{}{"walks": walks, "events": events, "problems": problems})
	if *out != "" {
		os.WriteFile(*out, b, 0644)
	}
	fmt.Fprintf(os.Stderr, "scale: %d walks, %d events, problems %v\n", walks, events, problems)
}

func init() { commands["scale"] = cmdScale }
