package main

import (
	"encoding/json"
	"flag"
	"fmt"
	"os"
	"os/signal"
	"strconv"
	"strings"
	"syscall"
)

func parseOpts(s string) SysOpts {
	var o SysOpts
	for _, f := range strings.Split(s, ",") {
		switch {
		case f == "auto":
			o.Auto = true
		case f == "nointegrity":
			o.NoIntegrity = true
		case f == "noversioning":
			o.NoVersioning = true
		case f == "pageerr":
			o.PageErr = true
		case f == "hostbucket":
			o.HostBucket = true
		case f == "boltsync":
			o.BoltSync = true
		case f == "skew":
			o.Skew = true
		case f == "reopenmid":
			o.ReopenMid = true
		case f == "freshmeta":
			o.FreshMeta = true
		case f == "fixedclock":
			o.FixedClock = true
		case f == "metafs":
			o.MetaFs = true
		case f == "negseed":
			o.NegSeed = true
		case strings.HasPrefix(f, "metalimit="):
			o.MetaLimit, _ = strconv.Atoi(f[len("metalimit="):])
		case strings.HasPrefix(f, "bases="):
			o.HostBases = strings.Split(f[len("bases="):], "+")
		}
	}
	return o
}

func parseKeyModes(s string) []int {
	switch s {
	case "rich":
		return []int{1}
	case "both":
		return []int{0, 1}
	case "rich2":
		return []int{2}
	case "rich3":
		return []int{3}
	}
	return []int{0}
}

type finalReport struct {
	*ReplaySummary
	ReplayFiles []string `json:"replay_files"`
}

func cmdReplay(args []string) {
	fs := flag.NewFlagSet("replay", flag.ExitOnError)
	prop := fs.String("property", "", "property id")
	systems := fs.String("systems", "mem", "comma-separated systems")
	opts := fs.String("opts", "", "front-end options")
	seed := fs.Int64("seed", 1, "seed")
	thorough := fs.Bool("thorough", false, "thorough tier body sizes")
	small := fs.Bool("small", false, "small bodies only")
	large := fs.Bool("large", false, "bodies around 1 MiB and of several MiB only")
	keys := fs.String("keys", "plain", "plain|rich|both")
	reopen := fs.Bool("reopen", false, "reopen the store before the last step")
	workers := fs.Int("workers", 8, "parallel workers")
	out := fs.String("out", "", "summary JSON path")
	replays := fs.String("replays", "/verif/replays", "directory for replay files")
	findings := fs.String("findings", "/verif/known_findings.json", "known findings")
	file := fs.String("file", "", "re-execute one replay file instead of reading tours")
	addr := fs.String("addr", "", "addressing mode: host:<base> | slashes")
	fs.Parse(args)

	kf := loadFindings(*findings)
	if *file != "" {
		replayFile(*file, kf)
		return
	}
	cfg := &RunCfg{Property: *prop, Systems: strings.Split(*systems, ","), Opts: parseOpts(*opts), Seed: *seed,
		Thorough: *thorough, Small: *small, Large: *large, KeyModes: parseKeyModes(*keys), Reopen: *reopen, Workers: *workers, Addr: *addr}
	sum := replayTours(os.Stdin, cfg, kf, 40)
	rep := finalReport{ReplaySummary: sum}
	for _, m := range sum.Mismatches {
		rep.ReplayFiles = append(rep.ReplayFiles, writeReplay(*replays, m))
	}
	b, _ := json.MarshalIndent(rep, "", " ")
	if *out != "" {
		os.WriteFile(*out, b, 0644)
	} else {
		os.Stdout.Write(b)
	}
	fmt.Fprintf(os.Stderr, "replay: %d tours, %d executions, %d steps, %d unknown mismatches (%d signatures), known %v, %.1fs\n",
		sum.Tours, sum.Executions, sum.Steps, len(sum.Mismatches), len(sum.SigCounts), sum.Known, sum.WallS)
}

// replayFile re-executes a stored mismatch and reports whether it reproduces.
func replayFile(path string, kf *Findings) {
	b, err := os.ReadFile(path)
	if err != nil {
		fmt.Fprintln(os.Stderr, err)
		os.Exit(2)
	}
	var m Mismatch
	if err := json.Unmarshal(b, &m); err != nil {
		fmt.Fprintln(os.Stderr, err)
		os.Exit(2)
	}
	cfg := &RunCfg{Property: m.Property, Opts: m.Opts, Seed: m.Seed, Thorough: m.Thorough, Small: m.Small, Reopen: m.Reopen, Addr: m.Addr}
	m2, _, err := runTour(cfg, m.System, m.Salt, m.KeyMode, m.Tour)
	if err != nil {
		fmt.Fprintln(os.Stderr, err)
		os.Exit(2)
	}
	if m2 == nil {
		fmt.Println("replay: no mismatch (the recorded violation does not reproduce on this tree)")
		return
	}
	fmt.Printf("replay: mismatch at step %d (%s) on %s:\n", m2.At, m2.Tour[m2.At].Op.S("op"), m2.System)
	for _, s := range m2.Msgs {
		fmt.Println("  ", s)
	}
	if id := kf.Classify(m2, m.Property); id != "" {
		fmt.Printf("KNOWN-FINDING: property=%s %s\n", m.Property, id)
		return
	}
	fmt.Printf("VIOLATION property=%s replay=%s\n", m.Property, path)
	os.Exit(1)
}

func main() {
	if len(os.Args) < 2 {
		fmt.Fprintln(os.Stderr, "usage: harness <replay|...> [flags]")
		os.Exit(2)
	}
	sig := make(chan os.Signal, 1)
	signal.Notify(sig, syscall.SIGINT, syscall.SIGTERM)
	go func() {
		<-sig
		cleanupTmp()
		os.Exit(2)
	}()
	defer cleanupTmp()
	switch os.Args[1] {
	case "replay":
		cmdReplay(os.Args[2:])
	default:
		if f, ok := commands[os.Args[1]]; ok {
			f(os.Args[2:])
		} else {
			fmt.Fprintln(os.Stderr, "unknown command", os.Args[1])
			cleanupTmp()
			os.Exit(2)
		}
	}
}

// commands registers further subcommands (one file per family).
var commands = map[string]func([]string){}
