package main

import (
	"bufio"
	"bytes"
	"encoding/json"
	"encoding/xml"
	"flag"
	"fmt"
	"mime/multipart"
	"net/http"
	"os"
	"sort"
	"strconv"
	"strings"
	"sync"
	"time"
)

// C09: abstract requests of the grammar (MC_Requests.tla) issued against
// prepared stores; observations are written as NDJSON for TraceReq.tla.

type fReq struct {
	Method string   `json:"method"`
	Path   string   `json:"path"`
	Subs   []string `json:"subs"`
	PName  string   `json:"pname"`
	PClass string   `json:"pclass"`
	Hdr    struct {
		H string `json:"h"`
		V string `json:"v"`
	} `json:"hdr"`
	Body string `json:"body"`
}

type fObs struct {
	Sys     string `json:"sys"`
	State   string `json:"state"`
	Req     fReq   `json:"req"`
	Panic   bool   `json:"panic"`
	Timeout bool   `json:"timeout"`
	St      int    `json:"st"`
	Body    string `json:"body"` // none | s3error | xml | other
	Code    string `json:"code"`
	Canary  string `json:"canary"`
	Detail  string `json:"detail,omitempty"`
}

type fuzzStore struct {
	sys   *System
	x     *Exec
	state string
	uid   string // a pending upload on bkt1/k1
	vid   string // an existing version of bkt1/k1
	fp    string
}

func mustStatus(o *Observed, want ...int) error {
	for _, w := range want {
		if o.Status == w {
			return nil
		}
	}
	return fmt.Errorf("setup request answered %d %s", o.Status, o.ErrCode())
}

func newFuzzStore(sysName, state string, opts SysOpts, seed int64) (*fuzzStore, error) {
	sys, err := NewSystem(sysName, opts)
	if err != nil {
		return nil, err
	}
	fs := &fuzzStore{sys: sys, state: state}
	x := NewExec(sys, NewConc(seed, 0, false))
	x.Conc.small = true
	x.Timeout = 15 * time.Second
	if opts.HostBucket {
		x.Addr = hostStyle("!s3.test")
	}
	fs.x = x
	put := func(b, k, atom string) error {
		return mustStatus(x.Do(Op{"op": "PutObject", "b": b, "k": fromBytes(k), "body": []interface{}{atom}, "meta": []interface{}{}}), 200)
	}
	if !sys.Single() {
		for _, b := range []string{"bkt1", "canary"} {
			if err := mustStatus(x.Do(Op{"op": "CreateBucket", "b": b}), 200); err != nil {
				return nil, err
			}
		}
	}
	if state == "rich" && sys.Versioned() {
		if err := mustStatus(x.Do(Op{"op": "PutVersioning", "b": "bkt1", "status": "Enabled"}), 200); err != nil {
			return nil, err
		}
	}
	if err := put("bkt1", "k1", "a1"); err != nil {
		return nil, err
	}
	if state == "rich" {
		o := x.Do(Op{"op": "PutObject", "b": "bkt1", "k": fromBytes("k1"), "body": []interface{}{"a2"}, "meta": []interface{}{}})
		fs.vid = o.Header.Get("x-amz-version-id")
		put("bkt1", "k2", "a3")
		x.Do(Op{"op": "DeleteObject", "b": "bkt1", "k": fromBytes("k2")}) // delete marker (versioned) or gone
		// a key whose current version was deleted by id, an older one remaining
		o1 := x.Do(Op{"op": "PutObject", "b": "bkt1", "k": fromBytes("k3"), "body": []interface{}{"a4"}, "meta": []interface{}{}})
		o2 := x.Do(Op{"op": "PutObject", "b": "bkt1", "k": fromBytes("k3"), "body": []interface{}{"a5"}, "meta": []interface{}{}})
		_ = o1
		if v := o2.Header.Get("x-amz-version-id"); v != "" {
			r := newReq("DELETE", "/bkt1/k3")
			r.Query.Set("versionId", v)
			x.serveAddr(r)
		}
		put("bkt1", "d/k4", "a6")
		// further reachable version histories (s3mem): every version deleted by id, archived ones first;
		// a delete marker removed by id; a delete marker left current after the newer version was deleted
		if sys.Versioned() {
			delv := func(k, v string) {
				if v != "" {
					r := newReq("DELETE", "/bkt1/"+k)
					r.Query.Set("versionId", v)
					x.Serve(r)
				}
			}
			putv := func(k, atom string) string {
				return x.Do(Op{"op": "PutObject", "b": "bkt1", "k": fromBytes(k), "body": []interface{}{atom}, "meta": []interface{}{}}).Header.Get("x-amz-version-id")
			}
			v1, v2 := putv("k5", "a7"), putv("k5", "a8")
			delv("k5", v1)
			delv("k5", v2)
			putv("k6", "a9")
			m := x.Do(Op{"op": "DeleteObject", "b": "bkt1", "k": fromBytes("k6")}).Header.Get("x-amz-version-id")
			delv("k6", m)
			putv("k7", "a10")
			x.Do(Op{"op": "DeleteObject", "b": "bkt1", "k": fromBytes("k7")})
			v3 := putv("k7", "a11")
			delv("k7", v3)
		}
		// pending uploads with gaps
		r := newReq("POST", "/bkt1/k1")
		r.Query.Set("uploads", "")
		var in xInitiate
		xml.Unmarshal(x.serveAddr(r).Body, &in)
		fs.uid = in.UploadID
		for _, n := range []int{1, 3} {
			rp := newReq("PUT", "/bkt1/k1")
			rp.Query.Set("uploadId", fs.uid)
			rp.Query.Set("partNumber", strconv.Itoa(n))
			rp.setBody([]byte(strings.Repeat("p", 10+n)))
			x.serveAddr(rp)
		}
		r2 := newReq("POST", "/bkt1/d/k5")
		r2.Query.Set("uploads", "")
		x.serveAddr(r2)
	}
	if fs.uid == "" {
		fs.uid = "1"
	}
	if fs.vid == "" {
		fs.vid = "3/60O30C1G60O30C1G60O30C1G60O30C1G60O30C1G60O30C1H03F9QN5V72K21OG="
	}
	fs.fp = fs.fingerprint()
	if fs.fp == "!broken" {
		return fs, fmt.Errorf("!prepared: the prepared store (a reachable state) panics or hangs on a plain listing/read")
	}
	if c := fs.canary(); c != "ok" {
		return fs, fmt.Errorf("!prepared: correct requests fail on the prepared store: %s", c)
	}
	fs.fp = fs.fingerprint()
	return fs, nil
}

// fingerprint reads everything observable in bkt1 (listing, versions, uploads, bucket list).
func (fs *fuzzStore) fingerprint() string {
	var sb strings.Builder
	for _, q := range []string{"", "versions", "uploads", "versioning"} {
		r := newReq("GET", "/bkt1")
		r.RawQ = q
		o := fs.x.serveAddr(r)
		if o.Timeout || o.Panic != "" {
			return "!broken"
		}
		fmt.Fprintf(&sb, "%d|%s|", o.Status, stripVolatile(o.Body))
	}
	o := fs.x.serveAddr(newReq("GET", "/"))
	var lb xBuckets
	xml.Unmarshal(o.Body, &lb)
	var names []string
	for _, b := range lb.Buckets {
		names = append(names, b.Name)
	}
	sort.Strings(names) // (s3mem lists buckets in map order)
	fmt.Fprintf(&sb, "%d|%v", o.Status, names)
	r := newReq("GET", "/bkt1/k1")
	o = fs.x.serveAddr(r)
	fmt.Fprintf(&sb, "|%d|%s", o.Status, md5hex(o.Body))
	return sb.String()
}

func stripVolatile(b []byte) string {
	s := string(b)
	for _, tag := range []string{"LastModified", "CreationDate", "Initiated"} {
		for {
			i := strings.Index(s, "<"+tag+">")
			j := strings.Index(s, "</"+tag+">")
			if i < 0 || j < i {
				break
			}
			s = s[:i] + s[j+len(tag)+3:]
		}
	}
	return s
}

// canary: correct requests on the same and on another bucket still work.
func (fs *fuzzStore) canary() string {
	x := fs.x
	for _, b := range []string{"canary", "bkt1"} {
		if fs.sys.Single() && b == "canary" {
			continue
		}
		if !fs.sys.Single() {
			if o := x.Do(Op{"op": "CreateBucket", "b": b}); o.Timeout || o.Panic != "" || (o.Status != 200 && o.Status != 409) {
				return fmt.Sprintf("create %s -> %d timeout=%v panic=%v", b, o.Status, o.Timeout, o.Panic != "")
			}
		}
		body := []byte("canary body " + b)
		r := newReq("PUT", "/"+b+"/canary-key")
		r.setBody(body)
		var vids []string
		o := x.serveAddr(r)
		if o.Status != 200 {
			return fmt.Sprintf("put %s/canary-key -> %d %s timeout=%v panic=%v", b, o.Status, o.ErrCode(), o.Timeout, o.Panic != "")
		}
		vids = append(vids, o.Header.Get("x-amz-version-id"))
		if o := x.serveAddr(newReq("GET", "/"+b+"/canary-key")); o.Status != 200 || !bytes.Equal(o.Body, body) {
			return fmt.Sprintf("get %s/canary-key -> %d, %d bytes", b, o.Status, len(o.Body))
		}
		o = x.serveAddr(newReq("DELETE", "/"+b+"/canary-key"))
		if o.Status != 204 {
			return fmt.Sprintf("delete %s/canary-key -> %d", b, o.Status)
		}
		vids = append(vids, o.Header.Get("x-amz-version-id"))
		// in a versioned bucket remove the canary's version and delete marker again
		for _, v := range vids {
			if v != "" {
				rd := newReq("DELETE", "/"+b+"/canary-key")
				rd.Query.Set("versionId", v)
				if o := x.serveAddr(rd); o.Status != 204 {
					return fmt.Sprintf("delete %s/canary-key?versionId -> %d", b, o.Status)
				}
			}
		}
		r2 := newReq("GET", "/"+b)
		if o := x.serveAddr(r2); o.Status != 200 {
			return fmt.Sprintf("list %s -> %d %s", b, o.Status, o.ErrCode())
		}
	}
	return "ok"
}

func (fs *fuzzStore) build(q *fReq) *Req {
	path := q.Path
	path = strings.Replace(path, "B", "bkt1", -1)
	path = strings.Replace(path, "K", "k1", -1)
	path = strings.Replace(path, "N", "nope", -1)
	r := newReq(q.Method, path)
	valid := func(p string) string {
		switch p {
		case "uploadId":
			return fs.uid
		case "versionId":
			return fs.vid
		case "partNumber", "max-keys", "max-parts", "max-uploads":
			return "1"
		case "list-type":
			return "2"
		case "marker", "key-marker", "start-after":
			return "k1"
		case "prefix":
			return "k"
		case "delimiter":
			return "/"
		case "continuation-token":
			return "azE="
		case "encoding-type":
			return "url"
		}
		return ""
	}
	for _, s := range q.Subs {
		r.Query.Set(s, valid(s))
	}
	if q.PName != "" {
		v := ""
		switch q.PClass {
		case "valid":
			v = valid(q.PName)
		case "empty":
			v = ""
		case "nonnumeric":
			v = "abc"
		case "negative":
			v = "-1"
		case "zero":
			v = "0"
		case "one":
			v = "1"
		case "huge":
			v = "99999999999"
		case "over63":
			v = "9223372036854775808"
		case "max63":
			v = "9223372036854775807"
		case "min63":
			v = "-9223372036854775808"
		case "max31":
			v = "2147483647"
		case "unknown":
			v = "does-not-exist"
		case "weird":
			v = "\x00\xff/../%zz&="
		}
		r.Query.Set(q.PName, v)
	}
	var body []byte
	switch q.Body {
	case "delete-xml":
		body = []byte(`<Delete><Object><Key>k1</Key></Object><Object><Key>nokey</Key><VersionId>nov</VersionId></Object></Delete>`)
	case "complete-xml":
		body = []byte(`<CompleteMultipartUpload><Part><PartNumber>1</PartNumber><ETag>"x"</ETag></Part></CompleteMultipartUpload>`)
	case "complete-odd-etags":
		// ETag spellings for parts that exist (1, 3) and one that does not (2): a lone quote, nothing, quotes only,
		// an unbalanced quote, blanks
		body = []byte(`<CompleteMultipartUpload><Part><PartNumber>1</PartNumber><ETag>&quot;</ETag></Part>` +
			`<Part><PartNumber>2</PartNumber><ETag>&quot;</ETag></Part><Part><PartNumber>3</PartNumber><ETag></ETag></Part></CompleteMultipartUpload>`)
	case "complete-quotes-only":
		body = []byte(`<CompleteMultipartUpload><Part><PartNumber>1</PartNumber><ETag>""</ETag></Part><Part><PartNumber>3</PartNumber><ETag>"abc</ETag></Part></CompleteMultipartUpload>`)
	case "complete-lone-quote":
		body = []byte(`<CompleteMultipartUpload><Part><PartNumber>3</PartNumber><ETag>"</ETag></Part></CompleteMultipartUpload>`)
	case "versioning-xml":
		body = []byte(`<VersioningConfiguration><Status>Suspended</Status></VersioningConfiguration>`)
	case "versioning-bad-status":
		body = []byte(`<VersioningConfiguration><Status>Bogus</Status><MfaDelete>Maybe</MfaDelete></VersioningConfiguration>`)
	case "truncated-xml":
		body = []byte(`<CompleteMultipartUpload><Part><PartNumber>1</PartNu`)
	case "wrong-root":
		body = []byte(`<Nonsense><Part><PartNumber>1</PartNumber></Part></Nonsense>`)
	case "huge-numbers":
		body = []byte(`<CompleteMultipartUpload><Part><PartNumber>99999999999999999999</PartNumber><ETag>"x"</ETag></Part></CompleteMultipartUpload>`)
	case "negative-part":
		body = []byte(`<CompleteMultipartUpload><Part><PartNumber>-1</PartNumber><ETag>"x"</ETag></Part></CompleteMultipartUpload>`)
	case "zero-part":
		body = []byte(`<CompleteMultipartUpload><Part><PartNumber>0</PartNumber><ETag>"x"</ETag></Part><Part><PartNumber>2</PartNumber><ETag>"y"</ETag></Part></CompleteMultipartUpload>`)
	case "binary":
		body = []byte{0, 1, 2, 0xff, 0xfe, '<', '>', 0}
	case "deep-xml":
		body = []byte(strings.Repeat("<a>", 2000) + strings.Repeat("</a>", 2000))
	case "chunked-garbage":
		body = []byte("zz;chunk-signature=nothex\r\ngarbage")
	case "form":
		var buf bytes.Buffer
		mw := multipart.NewWriter(&buf)
		mw.WriteField("key", "formkey")
		fw, _ := mw.CreateFormFile("file", "f")
		fw.Write([]byte("form body"))
		mw.Close()
		body = buf.Bytes()
		r.Header.Set("Content-Type", mw.FormDataContentType())
	}
	r.Body = bytes.NewReader(body)
	r.CLen = int64(len(body))
	r.Header.Set("Content-Length", strconv.Itoa(len(body)))
	if q.Hdr.H != "" {
		v := q.Hdr.V
		v = strings.Replace(v, "B", "bkt1", -1)
		if q.Hdr.H == "X-Amz-Copy-Source" {
			v = strings.Replace(v, "K", "k1", -1)
			v = strings.Replace(v, "N", "nope", -1)
		}
		if v == "BIG" {
			v = strings.Repeat("m", 5000)
		}
		if q.Hdr.H == "Content-Length" && v == "" {
			r.Header.Del("Content-Length")
			r.CLen = -1
		} else {
			r.Header[http.CanonicalHeaderKey(q.Hdr.H)] = []string{v}
			if q.Hdr.H == "Content-Length" {
				if n, err := strconv.ParseInt(v, 10, 64); err == nil {
					r.CLen = n
				} else {
					r.CLen = -1
				}
			}
		}
	}
	return r
}

func classifyBody(o *Observed) (kind, code string) {
	b := bytes.TrimSpace(o.Body)
	if len(b) == 0 {
		return "none", ""
	}
	var e xError
	if err := xml.Unmarshal(b, &e); err == nil && e.XMLName.Local == "Error" {
		return "s3error", e.Code
	}
	var any struct {
		XMLName xml.Name
	}
	if err := xml.Unmarshal(b, &any); err == nil {
		return "xml", ""
	}
	return "other", ""
}

func cmdFuzzReq(args []string) {
	fl := flag.NewFlagSet("fuzzreq", flag.ExitOnError)
	systems := fl.String("systems", "mem", "systems")
	opts := fl.String("opts", "", "front-end options")
	states := fl.String("states", "rich", "prepared states: plain,rich")
	seed := fl.Int64("seed", 1, "seed")
	trace := fl.String("trace", "", "NDJSON observations")
	progress := fl.String("progress", "", "file receiving the request in flight (crash attribution)")
	out := fl.String("out", "", "summary")
	workers := fl.Int("workers", 8, "workers")
	every := fl.Int("every", 1, "use every n-th request")
	oneFile := fl.String("one", "", "execute the single request stored in this file (JSON fObs) and print the observation")
	fl.Parse(args)

	so := parseOpts(*opts)
	if *oneFile != "" {
		b, err := os.ReadFile(*oneFile)
		if err != nil {
			fmt.Fprintln(os.Stderr, err)
			os.Exit(2)
		}
		var ob fObs
		json.Unmarshal(b, &ob)
		st, err := newFuzzStore(ob.Sys, ob.State, so, *seed)
		if err != nil {
			fmt.Fprintln(os.Stderr, err)
			os.Exit(2)
		}
		res := runFuzzOne(st, &ob.Req)
		j, _ := json.Marshal(res)
		fmt.Println(string(j))
		return
	}

	tf, err := os.Create(*trace)
	if err != nil {
		fmt.Fprintln(os.Stderr, err)
		os.Exit(2)
	}
	tw := bufio.NewWriterSize(tf, 1<<20)
	var pf *os.File
	if *progress != "" {
		pf, _ = os.Create(*progress)
	}
	var mu sync.Mutex
	enc := json.NewEncoder(tw)
	total, rebuilt := 0, 0
	perSys := map[string]int{}
	type job struct{ q fReq }
	var wg sync.WaitGroup
	chans := []chan job{}
	for _, sysName := range strings.Split(*systems, ",") {
		for _, state := range strings.Split(*states, ",") {
			for w := 0; w < *workers; w++ {
				ch := make(chan job, 64)
				chans = append(chans, ch)
				wg.Add(1)
				slotNo := len(chans) - 1
				go func(sysName, state string, ch chan job) {
					defer wg.Done()
					var st *fuzzStore
					for j := range ch {
						if st == nil {
							var err error
							st, err = newFuzzStore(sysName, state, so, *seed)
							if err != nil && strings.HasPrefix(err.Error(), "!prepared") {
								// a reachable state in which the server no longer answers correct requests:
								// an observation for TraceReq, not a harness problem
								mu.Lock()
								enc.Encode(&fObs{Sys: sysName, State: state, Req: fReq{Method: "SETUP", Path: "(prepared store)", Subs: []string{}},
									St: 200, Body: "none", Canary: err.Error()})
								total++
								mu.Unlock()
								for range ch {
								}
								return
							}
							if err != nil {
								fmt.Fprintln(os.Stderr, "harness: cannot prepare store:", err)
								os.Exit(2)
							}
							mu.Lock()
							rebuilt++
							mu.Unlock()
						}
						if pf != nil {
							// one fixed-size slot per worker: the requests in flight when the process dies
							b, _ := json.Marshal(fObs{Sys: sysName, State: state, Req: j.q})
							slot := make([]byte, 4096)
							for i := range slot {
								slot[i] = ' '
							}
							copy(slot, b)
							slot[4095] = '\n'
							pf.WriteAt(slot, int64(slotNo)*4096)
						}
						ob := runFuzzOne(st, &j.q)
						mu.Lock()
						enc.Encode(ob)
						total++
						perSys[sysName]++
						mu.Unlock()
						if st.fp == "" {
							st.sys.Close()
							st = nil
						}
					}
					if st != nil {
						st.sys.Close()
					}
				}(sysName, state, ch)
			}
		}
	}
	rd := bufio.NewReaderSize(os.Stdin, 1<<20)
	idx := 0
	nw := *workers
	for {
		line, err := rd.ReadString('\n')
		line = strings.TrimSpace(line)
		if strings.HasPrefix(line, `"{`) {
			var s string
			if json.Unmarshal([]byte(line), &s) == nil {
				var t struct {
					Reqs []fReq `json:"reqs"`
				}
				if json.Unmarshal([]byte(s), &t) == nil {
					for _, q := range t.Reqs {
						idx++
						if idx%*every != 0 {
							continue
						}
						// every (system, state) group gets the request; inside a group round-robin
						for g := 0; g < len(chans)/nw; g++ {
							chans[g*nw+(idx / *every)%nw] <- job{q}
						}
					}
				}
			}
		}
		if err != nil {
			break
		}
	}
	for _, ch := range chans {
		close(ch)
	}
	wg.Wait()
	tw.Flush()
	tf.Close()
	b, _ := json.MarshalIndent(map[string]interface{}{"requests": idx, "executed": total, "stores_built": rebuilt, "per_system": perSys}, "", " ")
	if *out != "" {
		os.WriteFile(*out, b, 0644)
	}
	fmt.Fprintf(os.Stderr, "fuzzreq: %d requests in grammar, %d executed, %d stores built\n", idx, total, rebuilt)
}

// runFuzzOne issues one request, then the canary; marks the store for
// rebuilding when its observable state changed.
func runFuzzOne(st *fuzzStore, q *fReq) *fObs {
	ob := &fObs{Sys: st.sys.Name, State: st.state, Req: *q}
	r := st.build(q)
	if st.x.Addr != nil {
		st.x.Addr(r)
	}
	o := st.x.Serve(r)
	ob.Panic = o.Panic != ""
	ob.Timeout = o.Timeout
	ob.St = o.Status
	if ob.Panic {
		ob.Detail = strings.SplitN(o.Panic, "\n", 2)[0]
	}
	if !ob.Panic && !ob.Timeout {
		ob.Body, ob.Code = classifyBody(o)
		if o.Method == "HEAD" {
			ob.Body = "none"
		}
		if ob.Body == "other" {
			ob.Detail = short(o.Body)
		}
	}
	// (1) what the request itself did to the observable state
	fp := st.fingerprint()
	readOnly := q.Method == "GET" || q.Method == "HEAD" || q.Method == "OPTIONS"
	changed := fp != st.fp
	// (2) correct requests still work on the same and on another bucket
	ob.Canary = st.canary()
	if changed && readOnly && ob.Canary == "ok" && !st.sys.Opts.Auto {
		ob.Canary = "a read-only request changed the observable state of the store"
	}
	if changed || ob.Timeout || ob.Canary != "ok" {
		st.fp = "" // rebuild the prepared store for the next request
	} else {
		// the canary's own writes (versions, delete markers) become part of the baseline
		st.fp = st.fingerprint()
	}
	return ob
}

func init() { commands["fuzzreq"] = cmdFuzzReq }

// serveAddr applies the addressing mode (if any) before serving.
func (x *Exec) serveAddr(r *Req) *Observed {
	if x.Addr != nil {
		x.Addr(r)
		if r.Skip {
			return &Observed{Status: 200}
		}
	}
	return x.Serve(r)
}
