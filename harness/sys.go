package main

import (
	"fmt"
	"io/ioutil"
	"net/http"
	"os"
	"path/filepath"
	"reflect"
	"strings"
	"sync/atomic"
	"time"
	"unsafe"

	"github.com/johannesboyne/gofakes3"
	"github.com/johannesboyne/gofakes3/backend/s3afero"
	"github.com/johannesboyne/gofakes3/backend/s3bolt"
	"github.com/johannesboyne/gofakes3/backend/s3mem"
	"github.com/spf13/afero"
	bolt "go.etcd.io/bbolt"
)

// SysOpts are the front-end options a system under test is built with.
type SysOpts struct {
	Auto         bool
	NoIntegrity  bool
	NoVersioning bool
	PageErr      bool
	HostBucket   bool
	HostBases    []string
	MetaLimit    int
	BoltSync     bool // keep fsync on (C15)
	ReopenMid    bool // replay: the backend is also closed and reopened before the LAST step of every history (C15)
	FreshMeta    bool // single-bucket systems: a restart comes back with an empty in-memory metadata store (the default
	// configuration of the directfs backend), so every object is met without a metadata record
	Skew       bool // keep the default time-skew limit (requests carrying a far-off x-amz-date are refused)
	FixedClock bool // every time source (front end, s3mem, s3bolt) is a clock that stands still (all timestamps equal)
	NegSeed    bool // s3mem built with a negative version seed (s3mem.WithVersionSeed)
	MetaFs     bool // multi-bucket fs backend built with its metadata on a separate file system (MultiWithMetaFs)
	// Wrap, when set, interposes on the Backend the front end is built on
	// (schedule gates at backend-call granularity, C07).
	Wrap func(gofakes3.Backend) gofakes3.Backend `json:"-"`
}

// System is one backend + front end under test.
type System struct {
	Name    string
	Opts    SysOpts
	Backend gofakes3.Backend
	Faker   *gofakes3.GoFakeS3
	Handler http.Handler
	dir     string
	boltDB  *bolt.DB
	baseFs  afero.Fs // fs backends: the underlying fs (for reopen / on-disk inspection)
	metaFs  afero.Fs
}

// SingleBucketName is the bucket the single-bucket backends serve.
const SingleBucketName = "bkt1"

var fixedInstant = time.Date(2020, 2, 29, 23, 59, 59, 0, time.UTC)

var tmpRoot string
var tmpSeq int64

func workTmp() string {
	if tmpRoot == "" {
		base := os.Getenv("VERIF_TMP")
		if base == "" {
			base = "/dev/shm"
			if st, err := os.Stat(base); err != nil || !st.IsDir() {
				base = os.TempDir()
			}
		}
		d, err := ioutil.TempDir(base, "verif-h-")
		if err != nil {
			panic(err)
		}
		tmpRoot = d
	}
	return tmpRoot
}

func cleanupTmp() {
	if tmpRoot != "" {
		os.RemoveAll(tmpRoot)
	}
}

func newDir() string {
	n := atomic.AddInt64(&tmpSeq, 1)
	d := filepath.Join(workTmp(), fmt.Sprintf("s%d", n))
	if err := os.MkdirAll(d, 0700); err != nil {
		panic(err)
	}
	return d
}

// Versioned reports whether the system exposes versioning through HTTP.
func (s *System) Versioned() bool {
	return s.Name == "mem" && !s.Opts.NoVersioning
}

// Paginates reports whether the backend implements list pagination.
func (s *System) Paginates() bool { return s.Name == "mem" }

// Single reports whether it is a single-bucket backend.
func (s *System) Single() bool { return strings.HasPrefix(s.Name, "single") }

// IsFs reports whether keys are mapped onto a file system.
func (s *System) IsFs() bool { return strings.HasPrefix(s.Name, "multi") || s.Single() }

// NewSystem builds a fresh, empty system.  name is one of
// mem, bolt, multimem, multios, singlemem, singleos.
func NewSystem(name string, o SysOpts) (*System, error) {
	s := &System{Name: name, Opts: o}
	if err := s.open(true); err != nil {
		return nil, err
	}
	return s, nil
}

func (s *System) open(fresh bool) error {
	var err error
	switch s.Name {
	case "mem":
		var mo []s3mem.Option
		if s.Opts.FixedClock {
			mo = append(mo, s3mem.WithTimeSource(gofakes3.FixedTimeSource(fixedInstant)))
		}
		if s.Opts.NegSeed {
			mo = append(mo, s3mem.WithVersionSeed(-20181231))
		} else if s.Opts.FixedClock {
			mo = append(mo, s3mem.WithVersionSeed(7))
		}
		s.Backend = s3mem.New(mo...)
	case "bolt":
		if fresh {
			s.dir = newDir()
		}
		if s.Opts.BoltSync {
			// C15: the constructor the real binary uses (s3bolt.NewFile, fsync on); the *bolt.DB it keeps
			// is unexported, so it is fetched by reflection in order to close it before a reopen
			be, err := s3bolt.NewFile(filepath.Join(s.dir, "db.bolt"))
			if err != nil {
				return err
			}
			v := reflect.ValueOf(be).Elem().FieldByName("bolt")
			s.boltDB = *(**bolt.DB)(unsafe.Pointer(v.UnsafeAddr()))
			s.Backend = be
			break
		}
		db, err := bolt.Open(filepath.Join(s.dir, "db.bolt"), 0600, &bolt.Options{Timeout: 5 * time.Second})
		if err != nil {
			return err
		}
		db.NoSync = true
		s.boltDB = db
		if s.Opts.FixedClock {
			s.Backend = s3bolt.New(db, s3bolt.WithTimeSource(gofakes3.FixedTimeSource(fixedInstant)))
		} else {
			s.Backend = s3bolt.New(db)
		}
	case "multimem":
		if fresh {
			s.baseFs = afero.NewMemMapFs()
			s.metaFs = afero.NewMemMapFs()
		}
		if s.Opts.MetaFs {
			s.Backend, err = s3afero.MultiBucket(s.baseFs, s3afero.MultiWithMetaFs(s.metaFs))
		} else {
			s.Backend, err = s3afero.MultiBucket(s.baseFs)
		}
	case "multios":
		if fresh {
			s.dir = newDir()
			s.baseFs = afero.NewBasePathFs(afero.NewOsFs(), s.dir)
		}
		s.Backend, err = s3afero.MultiBucket(s.baseFs)
	case "singlemem":
		if fresh {
			s.baseFs = afero.NewMemMapFs()
			s.metaFs = afero.NewMemMapFs()
		}
		s.Backend, err = s3afero.SingleBucket(SingleBucketName, s.baseFs, s.metaFs)
	case "singleos":
		if fresh {
			s.dir = newDir()
			os.MkdirAll(filepath.Join(s.dir, "data"), 0700)
			os.MkdirAll(filepath.Join(s.dir, "meta"), 0700)
			s.baseFs = afero.NewBasePathFs(afero.NewOsFs(), filepath.Join(s.dir, "data"))
			s.metaFs = afero.NewBasePathFs(afero.NewOsFs(), filepath.Join(s.dir, "meta"))
		}
		s.Backend, err = s3afero.SingleBucket(SingleBucketName, s.baseFs, s.metaFs)
	default:
		return fmt.Errorf("unknown system %q", s.Name)
	}
	if err != nil {
		return err
	}
	var opts []gofakes3.Option
	o := s.Opts
	if o.Auto {
		opts = append(opts, gofakes3.WithAutoBucket(true))
	}
	if o.NoIntegrity {
		opts = append(opts, gofakes3.WithIntegrityCheck(false))
	}
	if o.NoVersioning {
		opts = append(opts, gofakes3.WithoutVersioning())
	}
	if o.PageErr {
		opts = append(opts, gofakes3.WithUnimplementedPageError())
	}
	if o.HostBucket {
		opts = append(opts, gofakes3.WithHostBucket(true))
	}
	if len(o.HostBases) > 0 {
		opts = append(opts, gofakes3.WithHostBucketBase(o.HostBases...))
	}
	if o.MetaLimit > 0 {
		opts = append(opts, gofakes3.WithMetadataSizeLimit(o.MetaLimit))
	}
	if !o.Skew {
		opts = append(opts, gofakes3.WithTimeSkewLimit(0))
	}
	if o.FixedClock {
		opts = append(opts, gofakes3.WithTimeSource(gofakes3.FixedTimeSource(fixedInstant)))
	}
	if o.Wrap != nil {
		s.Backend = o.Wrap(s.Backend)
	}
	s.Faker = gofakes3.New(s.Backend, opts...)
	s.Handler = s.Faker.Server()
	return nil
}

// Reopen closes the backend and constructs a new one on the same storage.
// Only meaningful for the persistent systems (bolt, multios, singleos).
func (s *System) Reopen() error {
	if s.Opts.FreshMeta && s.Single() {
		s.metaFs = afero.NewMemMapFs()
	}
	if s.boltDB != nil {
		if err := s.boltDB.Close(); err != nil {
			return err
		}
		s.boltDB = nil
	}
	return s.open(false)
}

// Close releases the system's resources and storage.
func (s *System) Close() {
	if s.boltDB != nil {
		s.boltDB.Close()
		s.boltDB = nil
	}
	if s.dir != "" {
		os.RemoveAll(s.dir)
		s.dir = ""
	}
}
