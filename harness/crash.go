package main

import (
	"bufio"
	"encoding/json"
	"flag"
	"fmt"
	"os"
	"regexp"
	"strings"
	"sync"
	"time"

	"github.com/johannesboyne/gofakes3"
	"github.com/johannesboyne/gofakes3/backend/s3afero"
	"github.com/spf13/afero"
)

// C15 crash points: the fs backends run on a wrapping afero.Fs that counts
// mutating calls.  For every mutating last step of a TLC-emitted tour and every
// k, the process "dies" at the k-th mutating call of that step: the call does
// not happen, nothing after it happens either (deferred clean-up included), a
// new backend is constructed on the underlying fs, and the state must be
// exactly the audited state before the step or the audited state after it.

type crashSignal struct{}

type crashState struct {
	mu      sync.Mutex
	count   int
	armAt   int // 0 = not armed
	crashed bool
	log     []string
}

// crashFs wraps one afero.Fs; several wrappers (object fs, metadata fs) share
// one crashState so that the mutating calls of an operation are counted in
// the order they happen.
type crashFs struct {
	afero.Fs
	*crashState
}

func (c *crashFs) step(what string) error {
	c.mu.Lock()
	defer c.mu.Unlock()
	if c.crashed {
		return fmt.Errorf("verif: process is dead")
	}
	c.count++
	if len(c.log) < 64 {
		c.log = append(c.log, what)
	}
	if c.armAt > 0 && c.count == c.armAt {
		c.crashed = true
		panic(crashSignal{})
	}
	return nil
}

func (c *crashFs) dead() bool { c.mu.Lock(); defer c.mu.Unlock(); return c.crashed }

func (c *crashFs) Create(name string) (afero.File, error) {
	if err := c.step("create " + name); err != nil {
		return nil, err
	}
	f, err := c.Fs.Create(name)
	if err != nil {
		return nil, err
	}
	return &crashFile{File: f, fs: c}, nil
}
func (c *crashFs) OpenFile(name string, flag int, perm os.FileMode) (afero.File, error) {
	if flag&(os.O_WRONLY|os.O_RDWR|os.O_CREATE|os.O_TRUNC|os.O_APPEND) != 0 {
		if err := c.step("openfile " + name); err != nil {
			return nil, err
		}
		f, err := c.Fs.OpenFile(name, flag, perm)
		if err != nil {
			return nil, err
		}
		return &crashFile{File: f, fs: c}, nil
	}
	if c.dead() {
		return nil, fmt.Errorf("verif: process is dead")
	}
	return c.Fs.OpenFile(name, flag, perm)
}
func (c *crashFs) Mkdir(name string, perm os.FileMode) error {
	if err := c.step("mkdir " + name); err != nil {
		return err
	}
	return c.Fs.Mkdir(name, perm)
}
func (c *crashFs) MkdirAll(name string, perm os.FileMode) error {
	if fi, err := c.Fs.Stat(name); err == nil && fi.IsDir() {
		return nil // nothing to do: not a mutation
	}
	if err := c.step("mkdirall " + name); err != nil {
		return err
	}
	return c.Fs.MkdirAll(name, perm)
}
func (c *crashFs) Remove(name string) error {
	if err := c.step("remove " + name); err != nil {
		return err
	}
	return c.Fs.Remove(name)
}
func (c *crashFs) RemoveAll(name string) error {
	if err := c.step("removeall " + name); err != nil {
		return err
	}
	return c.Fs.RemoveAll(name)
}
func (c *crashFs) Rename(o, n string) error {
	if err := c.step("rename " + o + " " + n); err != nil {
		return err
	}
	return c.Fs.Rename(o, n)
}
func (c *crashFs) Chtimes(name string, a, m time.Time) error {
	if c.dead() {
		return fmt.Errorf("verif: process is dead")
	}
	return c.Fs.Chtimes(name, a, m)
}

type crashFile struct {
	afero.File
	fs *crashFs
}

func (f *crashFile) Write(p []byte) (int, error) {
	if err := f.fs.step("write " + f.File.Name()); err != nil {
		return 0, err
	}
	return f.File.Write(p)
}
func (f *crashFile) WriteString(s string) (int, error) {
	if err := f.fs.step("write " + f.File.Name()); err != nil {
		return 0, err
	}
	return f.File.WriteString(s)
}
func (f *crashFile) Close() error {
	if f.fs.dead() {
		return fmt.Errorf("verif: process is dead")
	}
	return f.File.Close()
}

type crashTour struct {
	H  []Step `json:"h"`
	A0 []Step `json:"a0"`
	A  []Step `json:"a"`
}

// newCrashSystem builds an fs system on a crashFs over the given base.
func newCrashSystem(kind string, base afero.Fs, meta afero.Fs, cf *crashFs) (*System, error) {
	s := &System{Name: kind}
	var err error
	if strings.HasPrefix(kind, "multi") {
		s.Backend, err = s3afero.MultiBucket(cf)
	} else {
		s.Backend, err = s3afero.SingleBucket(SingleBucketName, cf, meta)
	}
	if err != nil {
		return nil, err
	}
	s.baseFs = base
	s.Faker = gofakes3.New(s.Backend, gofakes3.WithTimeSkewLimit(0))
	s.Handler = s.Faker.Server()
	return s, nil
}

func newBase(kind string) (base afero.Fs, meta afero.Fs, cleanup func()) {
	if strings.HasSuffix(kind, "os") {
		d := newDir()
		os.MkdirAll(d+"/data", 0700)
		os.MkdirAll(d+"/meta", 0700)
		return afero.NewBasePathFs(afero.NewOsFs(), d+"/data"), afero.NewBasePathFs(afero.NewOsFs(), d+"/meta"), func() { os.RemoveAll(d) }
	}
	return afero.NewMemMapFs(), afero.NewMemMapFs(), func() {}
}

type crashResult struct {
	Tours    int            `json:"tours"`
	Points   int            `json:"crash_points"`
	Distinct map[string]int `json:"distinct_ops"`
	Post     int            `json:"ended_in_post_state"`
	Pre      int            `json:"ended_in_pre_state"`
	Fails    []*crashFail   `json:"failures"`
	NFail    int            `json:"n_failures"`
	Samples  []string       `json:"samples"`
}

type crashFail struct {
	System string   `json:"system"`
	Tour   []Step   `json:"tour"`
	K      int      `json:"k"`
	Of     int      `json:"of"`
	Calls  []string `json:"calls"`
	Msg    string   `json:"msg"`
	A0     []Step   `json:"a0"`
	A      []Step   `json:"a"`
	Salt   int64    `json:"salt"`
	Seed   int64    `json:"seed"`
}

// runCrash executes the tour with a crash at the k-th mutating fs call of the
// last step (k = 0: no crash, returns the number of mutating calls).
func runCrash(kind string, t *crashTour, k int, seed, salt int64) (calls int, log []string, msg string) {
	base, meta, cleanup := newBase(kind)
	defer cleanup()
	cf := &crashFs{Fs: base, crashState: &crashState{}}
	sys, err := newCrashSystem(kind, base, &crashFs{Fs: meta, crashState: cf.crashState}, cf)
	if err != nil {
		return 0, nil, "harness: " + err.Error()
	}
	conc := NewConc(seed, salt, false)
	conc.small = false
	x := NewExec(sys, conc)
	for i, st := range t.H[:len(t.H)-1] {
		obs := x.Do(st.Op)
		if bad := x.Compare(st.Op, st.R, obs); len(bad) > 0 {
			return 0, nil, fmt.Sprintf("prefix step %d mismatched: %v", i, bad)
		}
	}
	last := t.H[len(t.H)-1]
	cf.mu.Lock()
	cf.count, cf.log, cf.armAt = 0, nil, k
	cf.mu.Unlock()
	func() {
		defer func() {
			if p := recover(); p != nil {
				if _, ok := p.(crashSignal); !ok {
					panic(p)
				}
			}
		}()
		// the handler runs on this goroutine so that the crash unwinds it
		r := x.Build(last.Op)
		x.serveSync(r)
	}()
	cf.mu.Lock()
	calls, log = cf.count, append([]string{}, cf.log...)
	cf.mu.Unlock()
	if k == 0 {
		return calls, log, ""
	}
	if !cf.dead() {
		return calls, log, "" // fewer than k mutating calls: nothing to check
	}
	// restart: a new backend on the underlying storage
	sys2, err := newCrashSystem(kind, base, meta, &crashFs{Fs: base, crashState: &crashState{}})
	if err != nil {
		return calls, log, "store does not open after the crash: " + err.Error()
	}
	x2 := NewExec(sys2, conc)
	x2.Vids, x2.Uids = x.Vids, x.Uids
	try := func(audit []Step) string {
		for i, st := range audit {
			obs := x2.Do(st.Op)
			if bad := x2.Compare(st.Op, st.R, obs); len(bad) > 0 {
				return fmt.Sprintf("audit step %d (%s): %s", i, st.Op.S("op"), strings.Join(bad, "; "))
			}
		}
		return ""
	}
	mPost := try(t.A)
	if mPost == "" {
		return calls, log, "=post"
	}
	mPre := try(t.A0)
	if mPre == "" {
		return calls, log, "=pre"
	}
	lastDone := "none"
	if len(log) >= 2 {
		lastDone = log[len(log)-2]
	}
	return calls, log, fmt.Sprintf("killed before mutating call %d (%s), last completed call (%s): the store is neither in the state before the step [%s] nor after it [%s]",
		k, log[len(log)-1], lastDone, mPre, mPost)
}

// serveSync runs the handler on the calling goroutine (panics propagate).
func (x *Exec) serveSync(r *Req) {
	x.Sync = true
	defer func() { x.Sync = false }()
	x.Serve(r)
}

func cmdCrash(args []string) {
	fs := flag.NewFlagSet("crash", flag.ExitOnError)
	systems := fs.String("systems", "multimem", "fs systems")
	seed := fs.Int64("seed", 1, "seed")
	out := fs.String("out", "", "summary")
	workers := fs.Int("workers", 16, "workers")
	every := fs.Int("every", 1, "use every n-th tour")
	one := fs.String("case", "", "replay one failure file")
	fs.Parse(args)
	if *one != "" {
		b, err := os.ReadFile(*one)
		if err != nil {
			fmt.Fprintln(os.Stderr, err)
			os.Exit(2)
		}
		var f crashFail
		json.Unmarshal(b, &f)
		_, _, msg := runCrash(f.System, &crashTour{H: f.Tour, A0: f.A0, A: f.A}, f.K, f.Seed, f.Salt)
		if msg == "" || msg[0] == '=' {
			fmt.Println("replay: no violation", msg)
			return
		}
		fmt.Println("replay:", msg)
		fmt.Printf("VIOLATION property=C15 replay=%s\n", *one)
		os.Exit(1)
	}
	res := &crashResult{Distinct: map[string]int{}}
	seenSig := map[string]bool{}
	var mu sync.Mutex
	type job struct {
		idx int
		t   *crashTour
	}
	jobs := make(chan job, 64)
	var wg sync.WaitGroup
	for w := 0; w < *workers; w++ {
		wg.Add(1)
		go func() {
			defer wg.Done()
			for j := range jobs {
				for _, kind := range strings.Split(*systems, ",") {
					salt := int64(j.idx)
					n, log, msg := runCrash(kind, j.t, 0, *seed, salt)
					if msg != "" {
						mu.Lock()
						res.NFail++
						if len(res.Fails) < 20 {
							res.Fails = append(res.Fails, &crashFail{System: kind, Tour: j.t.H, K: 0, Msg: msg, Seed: *seed, Salt: salt})
						}
						mu.Unlock()
						continue
					}
					for k := 1; k <= n; k++ {
						_, lg, m := runCrash(kind, j.t, k, *seed, salt)
						mu.Lock()
						res.Points++
						last := j.t.H[len(j.t.H)-1].Op.S("op")
						res.Distinct[kind+"/"+last+"/"+fmt.Sprint(k)]++
						switch m {
						case "=post":
							res.Post++
						case "=pre":
							res.Pre++
						case "":
						default:
							// confirm
							if _, _, m2 := runCrash(kind, j.t, k, *seed, salt); m2 != "" && m2[0] != '=' {
								res.NFail++
								// one example per distinct (system, operation, normalised message)
								sig := kind + "|" + last + "|" + normMsg(m)
								if !seenSig[sig] && len(res.Fails) < 400 {
									seenSig[sig] = true
									res.Fails = append(res.Fails, &crashFail{System: kind, Tour: j.t.H, K: k, Of: n, Calls: lg, Msg: m,
										A0: j.t.A0, A: j.t.A, Seed: *seed, Salt: salt})
								}
							}
						}
						if len(res.Samples) < 3 && k == n {
							res.Samples = append(res.Samples, fmt.Sprintf("%s %s: mutating calls %v", kind, last, log))
						}
						mu.Unlock()
					}
				}
			}
		}()
	}
	rd := bufio.NewReaderSize(os.Stdin, 1<<20)
	idx := 0
	for {
		line, err := rd.ReadString('\n')
		line = strings.TrimSpace(line)
		if strings.HasPrefix(line, `"{`) {
			var s string
			if json.Unmarshal([]byte(line), &s) == nil {
				var t crashTour
				if json.Unmarshal([]byte(s), &t) == nil && len(t.H) > 0 {
					idx++
					if idx%*every == 0 {
						jobs <- job{idx, &t}
					}
				}
			}
		}
		if err != nil {
			break
		}
	}
	close(jobs)
	wg.Wait()
	res.Tours = idx
	b, _ := json.MarshalIndent(res, "", " ")
	if *out != "" {
		os.WriteFile(*out, b, 0644)
	}
	fmt.Fprintf(os.Stderr, "crash: %d tours, %d crash points (%d post, %d pre), %d failures\n", res.Tours, res.Points, res.Post, res.Pre, res.NFail)
}

func init() { commands["crash"] = cmdCrash }

var normRe = regexp.MustCompile(`"[^"]*"|[0-9a-f]{16,}|\d+`)

func normMsg(m string) string { return normRe.ReplaceAllString(m, "_") }
