package main

import (
	"bytes"
	"crypto/md5"
	"encoding/hex"
	"encoding/xml"
	"fmt"
	"net/http"
	"sort"
	"strconv"
	"strings"
	"unicode/utf8"
)

func md5sum(b []byte) []byte {
	s := md5.Sum(b)
	return s[:]
}

func quoteETag(b []byte) string { return `"` + md5hex(b) + `"` }

// compositeETag is the S3 multipart ETag: md5 of the concatenated part
// digests, '-', part count.
func compositeETag(parts [][]byte) string {
	h := md5.New()
	for _, p := range parts {
		h.Write(md5sum(p))
	}
	return `"` + hex.EncodeToString(h.Sum(nil)) + "-" + strconv.Itoa(len(parts)) + `"`
}

func short(b []byte) string {
	if len(b) > 120 {
		return fmt.Sprintf("%q...(%d bytes)", b[:120], len(b))
	}
	return fmt.Sprintf("%q", b)
}

// Compare checks the observed response against the reply the specification
// predicts.  Only fields present in the expected reply are compared; all
// other response content is followed, not required (DESIGN section 5).
// It also binds server-chosen identifiers (vid, uid) to their symbolic names.
func (x *Exec) Compare(op Op, exp Op, o *Observed) []string {
	var bad []string
	add := func(f string, a ...interface{}) { bad = append(bad, fmt.Sprintf(f, a...)) }

	if o.NoReq {
		return nil
	}
	if o.Panic != "" {
		first := o.Panic
		if i := strings.Index(first, "\n"); i > 0 {
			first = first[:i]
		}
		return []string{"handler panicked: " + first}
	}
	if o.Timeout {
		return []string{"handler did not return within the deadline"}
	}

	isHead := o.Method == "HEAD"
	matchSC := func(st int, code string) bool {
		if st != 0 && o.Status != st {
			return false
		}
		if code == "!" { // any refusal: a transport-level failure has no prescribed code
			return o.Status >= 400
		}
		if code == "*" || isHead {
			return true
		}
		if o.Status < 300 {
			return code == ""
		}
		return o.ErrCode() == code
	}

	if alts := exp.List("alts"); alts != nil {
		ok := false
		var want []string
		for _, a := range alts {
			ao := Op(a.(map[string]interface{}))
			want = append(want, fmt.Sprintf("%d/%s", ao.I("st"), ao.S("code")))
			if matchSC(ao.I("st"), ao.S("code")) {
				ok = true
			}
		}
		if !ok {
			add("status/code: got %d/%s, want one of %v", o.Status, o.ErrCode(), want)
		}
		return bad
	}

	if exp.B("or416") && o.Status == 416 && o.ErrCode() == "InvalidRange" {
		return bad // whitespace variants: the correct 206 or a 416 (DESIGN 5.2)
	}
	if !matchSC(exp.I("st"), exp.S("code")) {
		add("status/code: got %d/%q, want %d/%q", o.Status, o.ErrCode(), exp.I("st"), exp.S("code"))
		return bad
	}
	if o.Status == 304 && exp.B("nobody") && len(o.Body) != 0 && !isHead {
		// NotModified is sent as an S3 error document by gofakes3; S3 sends no body.  Followed, not required.
	}
	if o.Status >= 300 {
		return bad
	}

	if exp.Has("body") {
		want := x.Conc.Body(exp.Atoms("body"))
		if !bytes.Equal(o.Body, want) {
			add("body: got %s, want %s", short(o.Body), short(want))
		}
		if cl := o.Header.Get("Content-Length"); cl != strconv.Itoa(len(want)) {
			add("Content-Length: got %q, want %d", cl, len(want))
		}
	}
	if exp.Has("slice") {
		sl := exp.Sub("slice")
		whole := x.Conc.Body(sl.Atoms("of"))
		first, last := sl.I("first"), sl.I("last")
		if first < 0 || last >= len(whole) || first > last {
			add("specification predicted an impossible slice %d-%d of %d bytes", first, last, len(whole))
		} else {
			want := whole[first : last+1]
			if !bytes.Equal(o.Body, want) {
				add("range body: got %s, want bytes %d-%d = %s", short(o.Body), first, last, short(want))
			}
			if cl := o.Header.Get("Content-Length"); cl != strconv.Itoa(len(want)) {
				add("Content-Length: got %q, want %d", cl, len(want))
			}
			wantCR := fmt.Sprintf("bytes %d-%d/%d", first, last, len(whole))
			if cr := o.Header.Get("Content-Range"); cr != wantCR {
				add("Content-Range: got %q, want %q", cr, wantCR)
			}
		}
	}
	if exp.B("nobody") && len(o.Body) != 0 {
		add("HEAD response carries a body of %d bytes", len(o.Body))
	}
	if exp.Has("clen") {
		want := len(x.Conc.Body(exp.Atoms("clen")))
		if cl := o.Header.Get("Content-Length"); cl != strconv.Itoa(want) {
			add("Content-Length: got %q, want %d", cl, want)
		}
	}
	if exp.Has("etag") {
		want := quoteETag(x.Conc.Body(exp.Atoms("etag")))
		if got := o.Header.Get("ETag"); got != want {
			add("ETag: got %s, want %s", got, want)
		}
	}
	if exp.Has("xetag") {
		want := quoteETag(x.Conc.Body(exp.Atoms("xetag")))
		var cr xCopyResult
		if err := xml.Unmarshal(o.Body, &cr); err != nil {
			add("copy result: %v", err)
		} else if cr.ETag != want {
			add("CopyObjectResult ETag: got %s, want %s", cr.ETag, want)
		}
	}
	if exp.Has("cetag") {
		var parts [][]byte
		for _, p := range exp.List("cetag") {
			parts = append(parts, x.Conc.Body(toAtoms(p)))
		}
		want := compositeETag(parts)
		var cr xComplete
		if err := xml.Unmarshal(o.Body, &cr); err != nil {
			add("complete result: %v", err)
		} else {
			if cr.ETag != want {
				add("CompleteMultipartUploadResult ETag: got %s, want %s", cr.ETag, want)
			}
			if cr.Key != xmlKey(x.Conc.Key(op.Key("k"))) || cr.Bucket != op.S("b") {
				add("CompleteMultipartUploadResult names %s/%s", cr.Bucket, cr.Key)
			}
		}
	}
	if exp.Has("meta") {
		for name, v := range exp.StrMap("meta") {
			h := metaHeader(name)
			want := x.Conc.MetaValue(name, v)
			if got := o.Header.Get(h); got != want {
				add("metadata %s: got %q, want %q", h, got, want)
			}
		}
	}
	if exp.Has("vid") {
		sym := exp.S("vid")
		got := o.Header.Get("x-amz-version-id")
		switch {
		case sym == "":
			if got != "" && op.S("op") != "GetObject" && op.S("op") != "HeadObject" {
				add("x-amz-version-id: got %q on a bucket without enabled versioning", got)
			}
		case strings.HasPrefix(sym, "?") || sym == "*":
		default:
			if got == "" {
				add("x-amz-version-id missing (want the id of %s)", sym)
			} else if known, ok := x.Vids[sym]; ok {
				if known != got {
					add("x-amz-version-id: got %q, want %q (%s)", got, known, sym)
				} else if was, ok := x.VerMeta[got]; ok && o.Status == 200 && (op.S("op") == "GetObjectVersion" || op.S("op") == "HeadObjectVersion") {
					// C05: a version is served with exactly its own metadata for as long as it exists
					if now := metaSig(o.Header); now != was {
						add("version %s (%s): metadata differs from what it was served with right after its upload: got [%s], was [%s]", sym, got, now, was)
					}
				}
			} else {
				for s2, v2 := range x.Vids {
					if v2 == got {
						add("version id %q issued twice (%s and %s)", got, s2, sym)
					}
				}
				x.Vids[sym] = got
				// a version id just issued to an upload: read the version's headers once (a read changes nothing)
				// so that later reads by id can be held against them
				if (op.S("op") == "PutObject" || op.S("op") == "PostObject") && o.Status == 200 && !x.Api && x.Addr == nil && x.Host == "" && x.ObjQuery == "" {
					hr := newReq("HEAD", x.objPath(toBytes(op["b"]), x.Conc.Key(op.Key("k"))))
					hr.Query.Set("versionId", got)
					if ho := x.Serve(hr); ho != nil && ho.Status == 200 && ho.Panic == "" && !ho.Timeout {
						if x.VerMeta == nil {
							x.VerMeta = map[string]string{}
						}
						x.VerMeta[got] = metaSig(ho.Header)
					}
				}
			}
		}
	}
	if exp.Has("dm") {
		want := "false"
		if exp.B("dm") {
			want = "true"
		}
		if got := o.Header.Get("x-amz-delete-marker"); got != want {
			add("x-amz-delete-marker: got %q, want %q", got, want)
		}
	}
	if exp.Has("buckets") {
		var lb xBuckets
		if err := xml.Unmarshal(o.Body, &lb); err != nil {
			add("list buckets: %v", err)
		} else {
			var got, want []string
			for _, b := range lb.Buckets {
				got = append(got, b.Name)
			}
			for _, b := range exp.List("buckets") {
				want = append(want, toBytes(b))
			}
			opt := map[string]bool{}
			for _, b := range exp.List("optBuckets") {
				opt[toBytes(b)] = true
			}
			var got2 []string
			for _, g := range got {
				if !opt[g] {
					got2 = append(got2, g)
				}
			}
			sort.Strings(got2)
			sort.Strings(want)
			if strings.Join(got2, ",") != strings.Join(want, ",") {
				missing, extra := diffSets(want, got2)
				add("buckets: %d listed, %d expected; missing %q, not created but listed %q", len(got2), len(want), missing, extra)
			}
		}
	}
	if exp.Has("deleted") {
		var dr xDeleteResult
		if err := xml.Unmarshal(o.Body, &dr); err != nil {
			add("delete result: %v", err)
		} else {
			var got, want []string
			for _, d := range dr.Deleted {
				got = append(got, d.Key)
			}
			for _, d := range exp.List("deleted") {
				want = append(want, xmlKey(x.Conc.Key(toBytes(d))))
			}
			sort.Strings(got)
			sort.Strings(want)
			if strings.Join(got, "\x00") != strings.Join(want, "\x00") {
				add("Deleted: got %q, want %q", got, want)
			}
			if len(dr.Errors) > 0 {
				add("multi-delete reported errors: %+v", dr.Errors)
			}
		}
	}
	if exp.Has("status") {
		var vc xVersioning
		if err := xml.Unmarshal(o.Body, &vc); err != nil {
			add("versioning configuration: %v", err)
		} else if vc.Status != exp.S("status") {
			add("versioning status: got %q, want %q", vc.Status, exp.S("status"))
		}
	}
	if exp.Has("keys") && op.S("op") == "ListObjects" {
		bad = append(bad, x.compareList(op, exp, o)...)
	}
	if exp.Has("versions") {
		bad = append(bad, x.compareVersions(op, exp, o)...)
	}
	if exp.Has("uid") {
		var in xInitiate
		if err := xml.Unmarshal(o.Body, &in); err != nil {
			add("initiate result: %v", err)
		} else {
			sym := exp.S("uid")
			if in.UploadID == "" {
				add("empty upload id")
			}
			for s2, u2 := range x.Uids {
				if u2 == in.UploadID && s2 != sym {
					add("upload id %q issued twice", in.UploadID)
				}
			}
			x.Uids[sym] = in.UploadID
			if in.Key != xmlKey(x.Conc.Key(op.Key("k"))) || in.Bucket != op.S("b") {
				add("InitiateMultipartUploadResult names %s/%s", in.Bucket, in.Key)
			}
		}
	}
	if exp.Has("parts") {
		bad = append(bad, x.compareParts(op, exp, o)...)
	}
	if exp.Has("uploads") {
		bad = append(bad, x.compareUploads(op, exp, o)...)
	}
	return bad
}

func (x *Exec) compareList(op Op, exp Op, o *Observed) []string {
	var bad []string
	add := func(f string, a ...interface{}) { bad = append(bad, fmt.Sprintf(f, a...)) }
	var lb xListBucket
	if err := xml.Unmarshal(o.Body, &lb); err != nil {
		return []string{"list result: " + err.Error()}
	}
	want := exp.List("keys")
	if len(lb.Contents) != len(want) {
		var got []string
		for _, c := range lb.Contents {
			got = append(got, c.Key)
		}
		var w []string
		for _, e := range want {
			w = append(w, xmlKey(x.Conc.Key(Op(e.(map[string]interface{})).Key("k"))))
		}
		add("Contents: got %q, want %q", got, w)
	} else {
		for i, e := range want {
			eo := Op(e.(map[string]interface{}))
			wk := xmlKey(x.Conc.Key(eo.Key("k")))
			c := lb.Contents[i]
			if c.Key != wk {
				add("Contents[%d].Key: got %q, want %q", i, c.Key, wk)
				continue
			}
			body := x.Conc.Body(eo.Atoms("body"))
			if c.Size != strconv.Itoa(len(body)) {
				add("Contents[%q].Size: got %s, want %d", wk, c.Size, len(body))
			}
			if !eo.B("mp") && c.ETag != quoteETag(body) {
				add("Contents[%q].ETag: got %s, want %s", wk, c.ETag, quoteETag(body))
			}
		}
	}
	var gotP []string
	for _, p := range lb.CommonPrefixes {
		gotP = append(gotP, p.Prefix)
	}
	opt := map[string]bool{}
	for _, p := range exp.List("optPrefixes") {
		opt[xmlKey(x.Conc.Key(toBytes(p)))] = true
	}
	var wantP []string
	for _, p := range exp.List("prefixes") {
		wantP = append(wantP, xmlKey(x.Conc.Key(toBytes(p))))
	}
	// required prefixes in order; optional ones may be interleaved
	var gotReq []string
	for _, p := range gotP {
		if opt[p] {
			continue
		}
		gotReq = append(gotReq, p)
	}
	if strings.Join(gotReq, "\x00") != strings.Join(wantP, "\x00") {
		add("CommonPrefixes: got %q, want %q (optional %v)", gotP, wantP, exp.List("optPrefixes"))
	}
	if !sort.StringsAreSorted(gotP) {
		add("CommonPrefixes not in ascending order: %q", gotP)
	}
	if exp.Has("trunc") && lb.IsTruncated != exp.B("trunc") {
		add("IsTruncated: got %v, want %v", lb.IsTruncated, exp.B("trunc"))
	}
	if lb.Name != op.S("b") {
		add("listing names bucket %q", lb.Name)
	}
	if exp.Has("echo") && !x.Api {
		e := exp.Sub("echo")
		if want := xmlKey(x.Conc.KeyPrefix(e.Key("prefix"))); lb.Prefix != want {
			add("listing echoes Prefix %q, want %q", lb.Prefix, want)
		}
		if want := e.Key("delim"); lb.Delimiter != want {
			add("listing echoes Delimiter %q, want %q", lb.Delimiter, want)
		}
		if op.B("v2") {
			// KeyCount counts the entries of this page: keys and common prefixes
			// (gofakes3 omits the element when the count is 0)
			if want := strconv.Itoa(len(lb.Contents) + len(lb.CommonPrefixes)); lb.KeyCount != want && !(lb.KeyCount == "" && want == "0") {
				add("KeyCount: got %q, but the page holds %s entries", lb.KeyCount, want)
			}
		}
	}
	return bad
}

func (x *Exec) compareVersions(op Op, exp Op, o *Observed) []string {
	var bad []string
	add := func(f string, a ...interface{}) { bad = append(bad, fmt.Sprintf(f, a...)) }
	var lv xListVersions
	if err := xml.Unmarshal(o.Body, &lv); err != nil {
		return []string{"version listing: " + err.Error()}
	}
	type ent struct {
		key, kind, vid string
		latest         bool
		size, etag     string
	}
	var got []ent
	for _, e := range lv.Entries {
		switch e.XMLName.Local {
		case "Version":
			got = append(got, ent{e.Key, "obj", e.VersionID, e.IsLatest, e.Size, e.ETag})
		case "DeleteMarker":
			got = append(got, ent{e.Key, "dm", e.VersionID, e.IsLatest, "", ""})
		}
	}
	want := exp.List("versions")
	// group by key, keys must ascend; inside a key the order is followed
	var gotKeys []string
	byKey := map[string][]ent{}
	for _, g := range got {
		if len(gotKeys) == 0 || gotKeys[len(gotKeys)-1] != g.key {
			if _, seen := byKey[g.key]; seen {
				add("key %q appears in two separate groups", g.key)
			}
			gotKeys = append(gotKeys, g.key)
		}
		byKey[g.key] = append(byKey[g.key], g)
	}
	if !sort.StringsAreSorted(gotKeys) {
		add("version listing keys not ascending: %q", gotKeys)
	}
	wantBy := map[string][]Op{}
	var wantKeys []string
	for _, w := range want {
		wo := Op(w.(map[string]interface{}))
		k := xmlKey(x.Conc.Key(wo.Key("k")))
		if _, ok := wantBy[k]; !ok {
			wantKeys = append(wantKeys, k)
		}
		wantBy[k] = append(wantBy[k], wo)
	}
	if strings.Join(gotKeys, "\x00") != strings.Join(wantKeys, "\x00") {
		add("version listing keys: got %q, want %q", gotKeys, wantKeys)
		return bad
	}
	for _, k := range wantKeys {
		gs := byKey[k]
		ws := wantBy[k]
		if len(gs) != len(ws) {
			add("key %q: got %d entries, want %d", k, len(gs), len(ws))
			continue
		}
		used := make([]bool, len(gs))
		nLatest := 0
		for _, g := range gs {
			if g.latest {
				nLatest++
			}
		}
		if nLatest != 1 {
			add("key %q: %d entries flagged IsLatest", k, nLatest)
		}
		for _, w := range ws {
			found := false
			body := x.Conc.Body(w.Atoms("body"))
			wantVid := w.S("vid")
			if v, ok := x.Vids[wantVid]; ok {
				wantVid = v
			} else if wantVid != "null" {
				wantVid = "*"
			}
			for i, g := range gs {
				if used[i] || g.kind != w.S("kind") || g.latest != w.B("latest") {
					continue
				}
				if wantVid != "*" && g.vid != wantVid {
					continue
				}
				if g.kind == "obj" {
					if g.size != strconv.Itoa(len(body)) {
						continue
					}
					if !w.B("mp") && g.etag != quoteETag(body) {
						continue
					}
				}
				used[i] = true
				found = true
				break
			}
			if !found {
				add("key %q: no entry matches expected %v (got %+v)", k, w, gs)
			}
		}
	}
	var gotP, wantP []string
	for _, p := range lv.CommonPrefixes {
		gotP = append(gotP, p.Prefix)
	}
	for _, p := range exp.List("prefixes") {
		wantP = append(wantP, x.Conc.Key(toBytes(p)))
	}
	if strings.Join(gotP, "\x00") != strings.Join(wantP, "\x00") {
		add("version listing CommonPrefixes: got %q, want %q", gotP, wantP)
	}
	return bad
}

func (x *Exec) compareParts(op Op, exp Op, o *Observed) []string {
	var bad []string
	add := func(f string, a ...interface{}) { bad = append(bad, fmt.Sprintf(f, a...)) }
	var lp xListParts
	if err := xml.Unmarshal(o.Body, &lp); err != nil {
		return []string{"list parts: " + err.Error()}
	}
	want := exp.List("parts")
	if len(lp.Parts) != len(want) {
		add("parts: got %+v, want %v", lp.Parts, want)
		return bad
	}
	for i, w := range want {
		wo := Op(w.(map[string]interface{}))
		body := x.Conc.Body(wo.Atoms("body"))
		g := lp.Parts[i]
		if g.PartNumber != x.Conc.PartNum(wo.I("n")) || g.Size != strconv.Itoa(len(body)) || g.ETag != quoteETag(body) {
			add("part[%d]: got %+v, want n=%d size=%d etag=%s", i, g, x.Conc.PartNum(wo.I("n")), len(body), quoteETag(body))
		}
	}
	if exp.Has("trunc") && lp.IsTruncated != exp.B("trunc") {
		add("ListParts IsTruncated: got %v, want %v", lp.IsTruncated, exp.B("trunc"))
	}
	return bad
}

func (x *Exec) compareUploads(op Op, exp Op, o *Observed) []string {
	var bad []string
	add := func(f string, a ...interface{}) { bad = append(bad, fmt.Sprintf(f, a...)) }
	var lu xListUploads
	if err := xml.Unmarshal(o.Body, &lu); err != nil {
		return []string{"list uploads: " + err.Error()}
	}
	var got, want []string
	for _, u := range lu.Uploads {
		got = append(got, u.Key+"\x01"+u.UploadID)
	}
	for _, w := range exp.List("uploads") {
		wo := Op(w.(map[string]interface{}))
		want = append(want, xmlKey(x.Conc.Key(wo.Key("k")))+"\x01"+x.realUid(wo.S("uid")))
	}
	if strings.Join(got, "\x00") != strings.Join(want, "\x00") {
		add("uploads: got %q, want %q", got, want)
	}
	var gotP, wantP []string
	for _, p := range lu.CommonPrefixes {
		gotP = append(gotP, p.Prefix)
	}
	for _, p := range exp.List("prefixes") {
		wantP = append(wantP, x.Conc.Key(toBytes(p)))
	}
	if strings.Join(gotP, "\x00") != strings.Join(wantP, "\x00") {
		add("upload listing CommonPrefixes: got %q, want %q", gotP, wantP)
	}
	if exp.Has("trunc") && lu.IsTruncated != exp.B("trunc") {
		add("ListMultipartUploads IsTruncated: got %v, want %v", lu.IsTruncated, exp.B("trunc"))
	}
	return bad
}

func diffSets(want, got []string) (missing, extra []string) {
	w := map[string]bool{}
	g := map[string]bool{}
	for _, x := range want {
		w[x] = true
	}
	for _, x := range got {
		g[x] = true
	}
	for _, x := range want {
		if !g[x] && len(missing) < 5 {
			missing = append(missing, x)
		}
	}
	for _, x := range got {
		if !w[x] && len(extra) < 5 {
			extra = append(extra, x)
		}
	}
	return
}

// xmlKey is the form in which a key can appear in an XML document: bytes that are not valid UTF-8 cannot be
// represented and arrive as U+FFFD (as would characters XML 1.0 excludes).
func xmlKey(k string) string {
	var sb strings.Builder
	for i := 0; i < len(k); {
		r, w := utf8.DecodeRuneInString(k[i:])
		if r == utf8.RuneError && w == 1 {
			sb.WriteString("\uFFFD") // (the encoder writes one replacement character per invalid byte)
		} else {
			sb.WriteString(k[i : i+w])
		}
		i += w
	}
	return sb.String()
}

// metaSig is the user metadata of a reply in a canonical spelling.
func metaSig(h http.Header) string {
	var out []string
	for name, vs := range h {
		// user metadata only: net/http adds a sniffed Content-Type to a GET that has none, not to a HEAD
		if strings.HasPrefix(name, "X-Amz-Meta-") {
			out = append(out, name+"="+strings.Join(vs, ","))
		}
	}
	sort.Strings(out)
	return strings.Join(out, "; ")
}
