package main

// C07, schedules: small concurrent programs (2..3 clients, 1..2 operations each
// on 1..2 keys) run under EVERY interleaving of their park points instead of
// whatever the Go scheduler happens to produce.
//
// Park points are the places where a request can be suspended without touching
// the code under test: the entry of every call the front end (or the built-in
// uploader) makes on the Backend it was given (a wrapper interposed with
// SysOpts.Wrap), and the first body write of a download (the response writer).
// A client goroutine runs until its next park point, reports there and waits;
// the scheduler resumes exactly one client at a time, so a run is determined by
// its sequence of choices, and the runs of a program are enumerated depth first
// over those choices (the set of park points is discovered while running: the
// number of backend calls behind a request differs per operation and option).
//
// A resumed client that neither parks nor finishes within a short time is
// waiting for a lock held by a parked one (a multipart completion parked in its
// backend write holds the uploader); it is left running and the exploration
// goes on with the others.  If nothing can be resumed and something is still
// running, the run is reported as a deadlock.
//
// Every run is a history of invocations and replies like those of the free
// runs (conc.go) and is decided by TraceConc.tla.

import (
	"bufio"
	"encoding/json"
	"flag"
	"fmt"
	"io"
	"math/rand"
	"os"
	"runtime"
	"strconv"
	"strings"
	"sync"
	"time"

	"github.com/johannesboyne/gofakes3"
)

func goid() int64 {
	var buf [64]byte
	n := runtime.Stack(buf[:], false)
	f := strings.Fields(string(buf[:n]))
	if len(f) < 2 {
		return -1
	}
	id, _ := strconv.ParseInt(f[1], 10, 64)
	return id
}

const (
	scIdle = iota
	scRunning
	scParked
	scBlocked
	scDone
)

type schedOp struct {
	op   Op
	body []byte
	slow bool // the body arrives in two halves with a park point in between
}

type schedClient struct {
	id      string
	idx     int
	ops     []schedOp
	release chan struct{}
	state   int
	auto    bool // the bucket check an operation starts with goes with its invocation (nothing happens in between)
	at      string
}

type schedEvt struct {
	c     *schedClient
	kind  string // park | opdone | done
	point string
}

type scheduler struct {
	ev   chan schedEvt
	gids sync.Map // goroutine id -> *schedClient
}

// park is called by the interposed backend and by the response writer.
func (s *scheduler) park(point string) {
	v, ok := s.gids.Load(goid())
	if !ok {
		return // not a scheduled client (set-up, final snapshot)
	}
	c := v.(*schedClient)
	s.ev <- schedEvt{c, "park", point}
	<-c.release
}

// ---- the interposed backend ----

type schedBackend struct {
	in gofakes3.Backend
	s  *scheduler
}

func (b *schedBackend) ListBuckets() ([]gofakes3.BucketInfo, error) {
	b.s.park("ListBuckets")
	return b.in.ListBuckets()
}
func (b *schedBackend) ListBucket(name string, prefix *gofakes3.Prefix, page gofakes3.ListBucketPage) (*gofakes3.ObjectList, error) {
	b.s.park("ListBucket")
	return b.in.ListBucket(name, prefix, page)
}
func (b *schedBackend) CreateBucket(name string) error {
	b.s.park("CreateBucket")
	return b.in.CreateBucket(name)
}
func (b *schedBackend) BucketExists(name string) (bool, error) {
	b.s.park("BucketExists")
	return b.in.BucketExists(name)
}
func (b *schedBackend) DeleteBucket(name string) error {
	b.s.park("DeleteBucket")
	return b.in.DeleteBucket(name)
}
func (b *schedBackend) ForceDeleteBucket(name string) error {
	b.s.park("ForceDeleteBucket")
	return b.in.ForceDeleteBucket(name)
}
func (b *schedBackend) GetObject(bucketName, objectName string, rangeRequest *gofakes3.ObjectRangeRequest) (*gofakes3.Object, error) {
	b.s.park("GetObject")
	return b.in.GetObject(bucketName, objectName, rangeRequest)
}
func (b *schedBackend) HeadObject(bucketName, objectName string) (*gofakes3.Object, error) {
	b.s.park("HeadObject")
	return b.in.HeadObject(bucketName, objectName)
}
func (b *schedBackend) DeleteObject(bucketName, objectName string) (gofakes3.ObjectDeleteResult, error) {
	b.s.park("DeleteObject")
	return b.in.DeleteObject(bucketName, objectName)
}
func (b *schedBackend) PutObject(bucketName, key string, meta map[string]string, input io.Reader, size int64) (gofakes3.PutObjectResult, error) {
	b.s.park("PutObject")
	return b.in.PutObject(bucketName, key, meta, input, size)
}
func (b *schedBackend) DeleteMulti(bucketName string, objects ...string) (gofakes3.MultiDeleteResult, error) {
	b.s.park("DeleteMulti")
	return b.in.DeleteMulti(bucketName, objects...)
}
func (b *schedBackend) CopyObject(srcBucket, srcKey, dstBucket, dstKey string, meta map[string]string) (gofakes3.CopyObjectResult, error) {
	b.s.park("CopyObject")
	return b.in.CopyObject(srcBucket, srcKey, dstBucket, dstKey, meta)
}

type schedVBackend struct {
	*schedBackend
	v gofakes3.VersionedBackend
}

func (b *schedVBackend) VersioningConfiguration(bucket string) (gofakes3.VersioningConfiguration, error) {
	b.s.park("VersioningConfiguration")
	return b.v.VersioningConfiguration(bucket)
}
func (b *schedVBackend) SetVersioningConfiguration(bucket string, v gofakes3.VersioningConfiguration) error {
	b.s.park("SetVersioningConfiguration")
	return b.v.SetVersioningConfiguration(bucket, v)
}
func (b *schedVBackend) GetObjectVersion(bucketName, objectName string, versionID gofakes3.VersionID, rangeRequest *gofakes3.ObjectRangeRequest) (*gofakes3.Object, error) {
	b.s.park("GetObjectVersion")
	return b.v.GetObjectVersion(bucketName, objectName, versionID, rangeRequest)
}
func (b *schedVBackend) HeadObjectVersion(bucketName, objectName string, versionID gofakes3.VersionID) (*gofakes3.Object, error) {
	b.s.park("HeadObjectVersion")
	return b.v.HeadObjectVersion(bucketName, objectName, versionID)
}
func (b *schedVBackend) DeleteObjectVersion(bucketName, objectName string, versionID gofakes3.VersionID) (gofakes3.ObjectDeleteResult, error) {
	b.s.park("DeleteObjectVersion")
	return b.v.DeleteObjectVersion(bucketName, objectName, versionID)
}
func (b *schedVBackend) DeleteMultiVersions(bucketName string, objects ...gofakes3.ObjectID) (gofakes3.MultiDeleteResult, error) {
	b.s.park("DeleteMultiVersions")
	return b.v.DeleteMultiVersions(bucketName, objects...)
}
func (b *schedVBackend) ListBucketVersions(bucketName string, prefix *gofakes3.Prefix, page *gofakes3.ListBucketVersionsPage) (*gofakes3.ListBucketVersionsResult, error) {
	b.s.park("ListBucketVersions")
	return b.v.ListBucketVersions(bucketName, prefix, page)
}

func (s *scheduler) wrap(b gofakes3.Backend) gofakes3.Backend {
	sb := &schedBackend{in: b, s: s}
	if v, ok := b.(gofakes3.VersionedBackend); ok {
		return &schedVBackend{schedBackend: sb, v: v}
	}
	return sb
}

// ---- one run under a given choice function ----

const schedBlockAfter = 150 * time.Millisecond

type schedRunResult struct {
	choices  []int   // the client resumed at each step
	enabled  [][]int // the clients that could have been resumed
	points   []string
	blocked  int
	deadlock string
}

func (s *scheduler) run(cr *concRun, clients []*schedClient, choose func(step int, enabled []int) int) schedRunResult {
	var res schedRunResult
	var wg sync.WaitGroup
	for _, c := range clients {
		c.state = scIdle
		c.release = make(chan struct{})
		wg.Add(1)
		go func(c *schedClient) {
			defer wg.Done()
			s.gids.Store(goid(), c)
			defer s.gids.Delete(goid())
			for i, so := range c.ops {
				<-c.release
				var w *recWriter
				if so.op.S("op") == "GetObject" || so.op.S("op") == "GetObjectVersion" {
					w = newRecWriter()
					w.park = func() { s.park("stream") }
				}
				var gb *gatedBody
				if so.slow {
					gb = &gatedBody{data: so.body, park: func() { s.park("body") }}
				}
				cr.doOp(c.id, so.op, so.body, gb, w)
				if i == len(c.ops)-1 {
					s.ev <- schedEvt{c, "done", ""}
				} else {
					s.ev <- schedEvt{c, "opdone", ""}
				}
			}
		}(c)
	}
	update := func(e schedEvt) {
		switch e.kind {
		case "park":
			auto := e.c.auto && e.point == "BucketExists" // (anything else comes after work of its own: a step of its own)
			e.c.auto = false
			if auto {
				e.c.state = scRunning
				e.c.release <- struct{}{}
				return
			}
			e.c.state, e.c.at = scParked, e.point
		case "opdone":
			e.c.state, e.c.auto = scIdle, false
		case "done":
			e.c.state, e.c.auto = scDone, false
		}
	}
	for step := 0; ; step++ {
		var enabled []int
		running := 0
		for _, c := range clients {
			switch c.state {
			case scIdle, scParked:
				enabled = append(enabled, c.idx)
			case scRunning, scBlocked:
				running++
			}
		}
		if len(enabled) == 0 {
			if running == 0 {
				break
			}
			// only blocked clients are left: they must come back by themselves
			select {
			case e := <-s.ev:
				update(e)
				step--
				continue
			case <-time.After(10 * time.Second):
				var who []string
				for _, c := range clients {
					if c.state == scRunning || c.state == scBlocked {
						who = append(who, c.id+":"+c.ops[0].op.S("op"))
					}
				}
				res.deadlock = fmt.Sprintf("requests %v neither return nor reach their next backend call with nothing else running (deadlock?)", who)
				return res
			}
		}
		pick := choose(step, enabled)
		c := clients[pick]
		res.choices = append(res.choices, pick)
		res.enabled = append(res.enabled, enabled)
		if c.state == scIdle {
			c.auto = true
			res.points = append(res.points, c.id+":start")
		} else {
			res.points = append(res.points, c.id+":"+c.at)
		}
		c.state = scRunning
		c.release <- struct{}{}
		timer := time.NewTimer(schedBlockAfter)
	wait:
		for c.state == scRunning {
			select {
			case e := <-s.ev:
				update(e)
			case <-timer.C:
				c.state = scBlocked
				res.blocked++
				break wait
			}
		}
		timer.Stop()
	}
	wg.Wait()
	return res
}

// ---- programs ----

type schedProgram struct {
	name      string
	versioned bool
	multi     bool                                                    // needs a multi-bucket system
	auto      bool                                                    // front end built with the auto-bucket option
	build     func(cr *concRun, r *rand.Rand) ([][]schedOp, []string) // runs the set-up (client "0"), returns the clients' operations and the keys of the final snapshot
}

func schedPrograms(level string) []schedProgram {
	k1, k2 := keyBytes("k1"), keyBytes("k2")
	put := func(cr *concRun, r *rand.Rand, name string, k []interface{}) schedOp {
		return schedOp{op: Op{"op": "PutObject", "b": concBucket, "k": k, "body": []interface{}{name}, "meta": []interface{}{}, "vid": ""}, body: cr.atom(name, r)}
	}
	slowput := func(cr *concRun, r *rand.Rand, name string, k []interface{}) schedOp {
		so := put(cr, r, name, k)
		so.slow = true
		return so
	}
	// the one zero-length body (all empty bodies are the same body)
	empty := func(cr *concRun, k []interface{}) schedOp {
		cr.mu.Lock()
		cr.atoms["e0"], cr.byMD5[quoteETag(nil)], cr.md5s["e0"], cr.bySHA[sha256hex(nil)] = []byte{}, "e0", md5hex(nil), "e0"
		cr.mu.Unlock()
		return schedOp{op: Op{"op": "PutObject", "b": concBucket, "k": k, "body": []interface{}{"e0"}, "meta": []interface{}{}, "vid": ""}, body: []byte{}}
	}
	bigput := func(cr *concRun, r *rand.Rand, name string, k []interface{}) schedOp {
		old := cr.sizes
		cr.sizes = []int{70000}
		defer func() { cr.sizes = old }()
		return put(cr, r, name, k)
	}
	get := func(k []interface{}) schedOp { return schedOp{op: Op{"op": "GetObject", "b": concBucket, "k": k}} }
	head := func(k []interface{}) schedOp { return schedOp{op: Op{"op": "HeadObject", "b": concBucket, "k": k}} }
	del := func(k []interface{}) schedOp {
		return schedOp{op: Op{"op": "DeleteObject", "b": concBucket, "k": k, "vid": ""}}
	}
	list := func() schedOp {
		return schedOp{op: Op{"op": "ListObjects", "b": concBucket, "v2": false, "prefix": []interface{}{}, "delim": []interface{}{},
			"max": float64(0), "marker": []interface{}{}, "hasMarker": false}}
	}
	cp := func(sk, dk []interface{}) schedOp {
		return schedOp{op: Op{"op": "CopyObject", "b": concBucket, "k": dk, "sb": concBucket, "sk": sk, "meta": []interface{}{}}}
	}
	delmulti := func(ks ...[]interface{}) schedOp {
		var objs []interface{}
		for _, k := range ks {
			objs = append(objs, map[string]interface{}{"k": k, "vid": ""})
		}
		return schedOp{op: Op{"op": "DeleteMulti", "b": concBucket, "objs": objs}}
	}
	setup := func(cr *concRun, so schedOp) Op {
		cr.doOp("0", so.op, so.body, nil, nil)
		return so.op
	}
	both := []string{"k1", "k2"}
	ps := []schedProgram{
		{name: "put-put-get", build: func(cr *concRun, r *rand.Rand) ([][]schedOp, []string) {
			setup(cr, put(cr, r, "w0_0", k1))
			return [][]schedOp{{put(cr, r, "w1_0", k1)}, {put(cr, r, "w2_0", k1)}, {get(k1)}}, both
		}},
		{name: "put-delete-get", build: func(cr *concRun, r *rand.Rand) ([][]schedOp, []string) {
			setup(cr, put(cr, r, "w0_0", k1))
			return [][]schedOp{{put(cr, r, "w1_0", k1)}, {del(k1)}, {get(k1)}}, both
		}},
		{name: "slowput-put-get", build: func(cr *concRun, r *rand.Rand) ([][]schedOp, []string) {
			setup(cr, put(cr, r, "w0_0", k1))
			return [][]schedOp{{slowput(cr, r, "w1_0", k1)}, {put(cr, r, "w2_0", k1)}, {get(k1)}}, both
		}},
		{name: "slowput-delete-head", build: func(cr *concRun, r *rand.Rand) ([][]schedOp, []string) {
			setup(cr, put(cr, r, "w0_0", k1))
			return [][]schedOp{{slowput(cr, r, "w1_0", k1)}, {del(k1)}, {head(k1)}}, both
		}},
		{name: "v-slowput-slowput-get", versioned: true, build: func(cr *concRun, r *rand.Rand) ([][]schedOp, []string) {
			return [][]schedOp{{slowput(cr, r, "w1_0", k1)}, {slowput(cr, r, "w2_0", k1)}, {get(k1)}}, both
		}},
		// a download parked after its first write, overlapped by overwrites with an EMPTY body (put, copy of an empty object)
		{name: "get-emptyput-head", build: func(cr *concRun, r *rand.Rand) ([][]schedOp, []string) {
			setup(cr, bigput(cr, r, "w0_0", k1))
			return [][]schedOp{{get(k1)}, {empty(cr, k1)}, {head(k1)}}, both
		}},
		{name: "get-copyempty-put", build: func(cr *concRun, r *rand.Rand) ([][]schedOp, []string) {
			setup(cr, bigput(cr, r, "w0_0", k1))
			setup(cr, empty(cr, k2))
			return [][]schedOp{{get(k1)}, {cp(k2, k1)}, {bigput(cr, r, "w3_0", k1)}}, both
		}},
		{name: "put-delete-list", build: func(cr *concRun, r *rand.Rand) ([][]schedOp, []string) {
			setup(cr, put(cr, r, "w0_0", k1))
			setup(cr, put(cr, r, "w0_1", k2))
			return [][]schedOp{{put(cr, r, "w1_0", k1)}, {del(k2)}, {list()}}, both
		}},
		{name: "copy-put-delete", build: func(cr *concRun, r *rand.Rand) ([][]schedOp, []string) {
			setup(cr, put(cr, r, "w0_0", k1))
			return [][]schedOp{{cp(k1, k2)}, {put(cr, r, "w2_0", k1)}, {del(k1)}}, both
		}},
		{name: "copy-copy-put", build: func(cr *concRun, r *rand.Rand) ([][]schedOp, []string) {
			setup(cr, put(cr, r, "w0_0", k1))
			setup(cr, put(cr, r, "w0_1", k2))
			return [][]schedOp{{cp(k1, k2)}, {cp(k2, k1)}, {put(cr, r, "w3_0", k2)}}, both
		}},
		{name: "copy-onto-itself-put", build: func(cr *concRun, r *rand.Rand) ([][]schedOp, []string) {
			setup(cr, put(cr, r, "w0_0", k1))
			return [][]schedOp{{cp(k1, k1)}, {put(cr, r, "w2_0", k1)}, {head(k1)}}, both
		}},
		{name: "deletemulti-put-get", build: func(cr *concRun, r *rand.Rand) ([][]schedOp, []string) {
			setup(cr, put(cr, r, "w0_0", k1))
			setup(cr, put(cr, r, "w0_1", k2))
			return [][]schedOp{{delmulti(k1, k2)}, {put(cr, r, "w2_0", k1)}, {get(k2)}}, both
		}},
		{name: "two-by-two", build: func(cr *concRun, r *rand.Rand) ([][]schedOp, []string) {
			setup(cr, put(cr, r, "w0_0", k1))
			return [][]schedOp{{put(cr, r, "w1_0", k1), get(k1)}, {del(k1), put(cr, r, "w2_1", k1)}}, both
		}},
		{name: "bucket-delete-put-head", multi: true, build: func(cr *concRun, r *rand.Rand) ([][]schedOp, []string) {
			return [][]schedOp{{{op: Op{"op": "DeleteBucket", "b": concBucket}}}, {put(cr, r, "w2_0", k1)}, {{op: Op{"op": "HeadBucket", "b": concBucket}}}}, both
		}},
		{name: "bucket-delete-create-put", multi: true, build: func(cr *concRun, r *rand.Rand) ([][]schedOp, []string) {
			return [][]schedOp{{{op: Op{"op": "DeleteBucket", "b": concBucket}}, {op: Op{"op": "CreateBucket", "b": concBucket}}}, {put(cr, r, "w2_0", k1)}}, both
		}},
		{name: "slowput-bucket-recreate", multi: true, build: func(cr *concRun, r *rand.Rand) ([][]schedOp, []string) {
			return [][]schedOp{{slowput(cr, r, "w1_0", k1)}, {{op: Op{"op": "DeleteBucket", "b": concBucket}}, {op: Op{"op": "CreateBucket", "b": concBucket}}}, {head(k1)}}, both
		}},
		// the auto-bucket option: the existence check, the creation of a missing bucket and the call are three steps
		// (spec/MC_FrontEnd.tla: the design itself is not atomic there; finding F35)
		{name: "auto-put-deletebucket-head", multi: true, auto: true, build: func(cr *concRun, r *rand.Rand) ([][]schedOp, []string) {
			return [][]schedOp{{put(cr, r, "w1_0", k1)}, {{op: Op{"op": "DeleteBucket", "b": concBucket}}}, {{op: Op{"op": "HeadBucket", "b": concBucket}}}}, both
		}},
		{name: "auto-put-put-get", multi: true, auto: true, build: func(cr *concRun, r *rand.Rand) ([][]schedOp, []string) {
			setup(cr, put(cr, r, "w0_0", k1))
			return [][]schedOp{{put(cr, r, "w1_0", k1)}, {put(cr, r, "w2_0", k1)}, {get(k1)}}, both
		}},
		{name: "v-put-put-get", versioned: true, build: func(cr *concRun, r *rand.Rand) ([][]schedOp, []string) {
			setup(cr, put(cr, r, "w0_0", k1))
			return [][]schedOp{{put(cr, r, "w1_0", k1)}, {put(cr, r, "w2_0", k1)}, {get(k1)}}, both
		}},
		{name: "v-put-delete-get", versioned: true, build: func(cr *concRun, r *rand.Rand) ([][]schedOp, []string) {
			setup(cr, put(cr, r, "w0_0", k1))
			return [][]schedOp{{put(cr, r, "w1_0", k1)}, {del(k1)}, {get(k1)}}, both
		}},
		{name: "v-deleteversion-put-get", versioned: true, build: func(cr *concRun, r *rand.Rand) ([][]schedOp, []string) {
			o := setup(cr, put(cr, r, "w0_0", k1))
			setup(cr, put(cr, r, "w0_1", k1))
			dv := schedOp{op: Op{"op": "DeleteObjectVersion", "b": concBucket, "k": k1, "vid": o.S("vid")}}
			gv := schedOp{op: Op{"op": "GetObjectVersion", "b": concBucket, "k": k1, "vid": o.S("vid")}}
			return [][]schedOp{{dv}, {put(cr, r, "w2_0", k1)}, {gv}}, both
		}},
		{name: "v-suspend-put-put", versioned: true, build: func(cr *concRun, r *rand.Rand) ([][]schedOp, []string) {
			setup(cr, put(cr, r, "w0_0", k1))
			sv := schedOp{op: Op{"op": "PutVersioning", "b": concBucket, "status": "Suspended"}}
			return [][]schedOp{{sv}, {put(cr, r, "w2_0", k1)}, {put(cr, r, "w3_0", k1)}}, both
		}},
		{name: "v-deletemulti-put", versioned: true, build: func(cr *concRun, r *rand.Rand) ([][]schedOp, []string) {
			setup(cr, put(cr, r, "w0_0", k1))
			setup(cr, put(cr, r, "w0_1", k2))
			return [][]schedOp{{delmulti(k1, k2)}, {put(cr, r, "w2_0", k1)}, {get(k1)}}, both
		}},
	}
	// multipart: an upload on k1 with part 1 in place
	mp := func(cr *concRun, r *rand.Rand) (string, []interface{}) {
		setup(cr, put(cr, r, "w0_0", k1))
		in := setup(cr, schedOp{op: Op{"op": "Initiate", "b": concBucket, "k": k1, "meta": []interface{}{}, "uid": ""}})
		setup(cr, schedOp{op: Op{"op": "UploadPart", "b": concBucket, "k": k1, "uid": in.S("uid"), "n": float64(1), "body": []interface{}{"p0_1"}}, body: cr.atom("p0_1", r)})
		return in.S("uid"), []interface{}{map[string]interface{}{"n": float64(1), "body": []interface{}{"p0_1"}}}
	}
	part := func(cr *concRun, r *rand.Rand, uid string, n int, name string) schedOp {
		return schedOp{op: Op{"op": "UploadPart", "b": concBucket, "k": k1, "uid": uid, "n": float64(n), "body": []interface{}{name}}, body: cr.atom(name, r)}
	}
	complete := func(uid string, l []interface{}) schedOp {
		return schedOp{op: Op{"op": "Complete", "b": concBucket, "k": k1, "uid": uid, "list": l, "vid": ""}}
	}
	ps = append(ps,
		schedProgram{name: "mp-part-part-complete", build: func(cr *concRun, r *rand.Rand) ([][]schedOp, []string) {
			uid, l := mp(cr, r)
			return [][]schedOp{{part(cr, r, uid, 1, "p1_1")}, {part(cr, r, uid, 2, "p2_2")}, {complete(uid, l)}}, both
		}},
		schedProgram{name: "mp-complete-complete-get", build: func(cr *concRun, r *rand.Rand) ([][]schedOp, []string) {
			uid, l := mp(cr, r)
			return [][]schedOp{{complete(uid, l)}, {complete(uid, l)}, {get(k1)}}, both
		}},
		schedProgram{name: "mp-complete-abort-put", build: func(cr *concRun, r *rand.Rand) ([][]schedOp, []string) {
			uid, l := mp(cr, r)
			ab := schedOp{op: Op{"op": "Abort", "b": concBucket, "k": k1, "uid": uid}}
			return [][]schedOp{{complete(uid, l)}, {ab}, {put(cr, r, "w3_0", k1)}}, both
		}},
		schedProgram{name: "mp-complete-delete-get", build: func(cr *concRun, r *rand.Rand) ([][]schedOp, []string) {
			uid, l := mp(cr, r)
			return [][]schedOp{{complete(uid, l)}, {del(k1)}, {get(k1)}}, both
		}},
		schedProgram{name: "v-mp-complete-put-get", versioned: true, build: func(cr *concRun, r *rand.Rand) ([][]schedOp, []string) {
			uid, l := mp(cr, r)
			return [][]schedOp{{complete(uid, l)}, {put(cr, r, "w2_0", k1)}, {get(k1)}}, both
		}},
	)
	if level == "thorough" {
		ps = append(ps,
			schedProgram{name: "two-by-two-copy", build: func(cr *concRun, r *rand.Rand) ([][]schedOp, []string) {
				setup(cr, put(cr, r, "w0_0", k1))
				return [][]schedOp{{cp(k1, k2), get(k2)}, {put(cr, r, "w2_0", k1), del(k2)}}, both
			}},
			schedProgram{name: "two-by-two-versions", versioned: true, build: func(cr *concRun, r *rand.Rand) ([][]schedOp, []string) {
				setup(cr, put(cr, r, "w0_0", k1))
				return [][]schedOp{{put(cr, r, "w1_0", k1), del(k1)}, {del(k1), get(k1)}}, both
			}},
			schedProgram{name: "slowput-copy-get", build: func(cr *concRun, r *rand.Rand) ([][]schedOp, []string) {
				setup(cr, put(cr, r, "w0_0", k1))
				return [][]schedOp{{slowput(cr, r, "w1_0", k1)}, {cp(k1, k2)}, {get(k1)}}, both
			}},
			schedProgram{name: "slowput-slowput-delete", build: func(cr *concRun, r *rand.Rand) ([][]schedOp, []string) {
				return [][]schedOp{{slowput(cr, r, "w1_0", k1)}, {slowput(cr, r, "w2_0", k1)}, {del(k1)}}, both
			}},
			schedProgram{name: "four-clients", build: func(cr *concRun, r *rand.Rand) ([][]schedOp, []string) {
				setup(cr, put(cr, r, "w0_0", k1))
				return [][]schedOp{{put(cr, r, "w1_0", k1)}, {del(k1)}, {get(k1)}, {cp(k1, k2)}}, both
			}},
			schedProgram{name: "mp-two-by-two", build: func(cr *concRun, r *rand.Rand) ([][]schedOp, []string) {
				uid, l := mp(cr, r)
				return [][]schedOp{{part(cr, r, uid, 1, "p1_1"), complete(uid, l)}, {complete(uid, l), get(k1)}}, both
			}},
		)
	}
	return ps
}

// ---- exploration ----

type schedFrame struct {
	enabled []int
	chosen  int
}

type schedStats struct {
	Programs  int            `json:"programs"`
	Schedules int            `json:"schedules"`
	Distinct  int            `json:"distinct_histories"`
	Blocked   int            `json:"steps_that_waited_for_a_parked_request"`
	Diverged  int            `json:"runs_that_left_their_schedule"`
	Capped    []string       `json:"programs_cut_at_the_schedule_limit"`
	PerProg   map[string]int `json:"schedules_per_program"`
	Steps     map[string]int `json:"longest_schedule_per_program"`
}

func exploreProgram(sysName string, p schedProgram, seed int64, max int, st *schedStats, emit func([]cEvent), problems *[]string) {
	var stack []schedFrame
	seen := map[string]bool{}
	n := 0
	for {
		s := &scheduler{ev: make(chan schedEvt)}
		cr, reset, err := newConcRunOpts(sysName, p.versioned, seed, false, SysOpts{Wrap: s.wrap, Auto: p.auto})
		if err != nil {
			*problems = append(*problems, sysName+": "+err.Error())
			return
		}
		// small bodies, and bodies of more than one copy buffer: what a download has still to read from the
		// backend when it is parked after its first write
		cr.sizes = []int{40, 70000}
		r := rand.New(rand.NewSource(seed))
		cr.record(reset)
		progs, keys := p.build(cr, r)
		var clients []*schedClient
		for i, ops := range progs {
			clients = append(clients, &schedClient{id: fmt.Sprint(i + 1), idx: i, ops: ops})
		}
		diverged := false
		depth := 0
		res := s.run(cr, clients, func(step int, enabled []int) int {
			depth = step + 1
			if step < len(stack) {
				want := stack[step].enabled[stack[step].chosen]
				for _, e := range enabled {
					if e == want {
						return want
					}
				}
				diverged = true
				stack = stack[:step]
			}
			stack = append(stack[:step], schedFrame{enabled: append([]int{}, enabled...)})
			return enabled[0]
		})
		if depth < len(stack) {
			stack = stack[:depth]
		}
		n++
		st.Schedules++
		st.PerProg[sysName+"/"+p.name]++
		if len(res.choices) > st.Steps[p.name] {
			st.Steps[p.name] = len(res.choices)
		}
		st.Blocked += res.blocked
		if diverged {
			st.Diverged++
		}
		if res.deadlock != "" {
			*problems = append(*problems, fmt.Sprintf("%s: program %s, schedule %v: %s", sysName, p.name, res.points, res.deadlock))
			cr.sys.Close()
			return
		}
		cr.record(cr.finalSnapshot(keys))
		evs := cr.sorted()
		evs[0].Scenario = "sched:" + p.name + ":" + strings.Join(res.points, ",")
		cr.sys.Close()
		// identical histories (same events in the same order) are decided once
		var sb strings.Builder
		for i, e := range evs {
			if i == 0 {
				continue
			}
			b, _ := json.Marshal(e)
			sb.Write(b)
		}
		if !seen[sb.String()] {
			seen[sb.String()] = true
			st.Distinct++
			emit(evs)
		}
		// next schedule: the deepest step with an alternative not yet taken
		for len(stack) > 0 && stack[len(stack)-1].chosen+1 >= len(stack[len(stack)-1].enabled) {
			stack = stack[:len(stack)-1]
		}
		if len(stack) == 0 {
			return
		}
		stack[len(stack)-1].chosen++
		if n >= max {
			st.Capped = append(st.Capped, sysName+"/"+p.name)
			return
		}
	}
}

func cmdSched(args []string) {
	fs := flag.NewFlagSet("sched", flag.ExitOnError)
	systems := fs.String("systems", "mem", "systems")
	seed := fs.Int64("seed", 1, "seed")
	level := fs.String("level", "quick", "quick|thorough")
	only := fs.String("programs", "", "only these programs (comma separated)")
	max := fs.Int("max", 6000, "schedules per program and system")
	par := fs.Int("parallel", 8, "programs explored side by side")
	noAuto := fs.Bool("no-auto", false, "leave the auto-bucket programs out")
	trace := fs.String("trace", "", "NDJSON output")
	out := fs.String("out", "", "summary")
	fs.Parse(args)
	defer cleanupTmp()
	tf, err := os.Create(*trace)
	if err != nil {
		fmt.Fprintln(os.Stderr, err)
		os.Exit(2)
	}
	tw := bufio.NewWriterSize(tf, 1<<20)
	enc := json.NewEncoder(tw)
	nruns, nevents := 0, 0
	st := &schedStats{PerProg: map[string]int{}, Steps: map[string]int{}}
	var problems []string
	// programs are explored side by side: every exploration has its own scheduler, system and history
	var mu sync.Mutex
	var wg sync.WaitGroup
	slots := make(chan struct{}, *par)
	for _, sysName := range strings.Split(*systems, ",") {
		for _, p := range schedPrograms(*level) {
			if *only != "" && !strings.Contains(","+*only+",", ","+p.name+",") {
				continue
			}
			if *noAuto && p.auto {
				continue
			}
			if p.multi && strings.HasPrefix(sysName, "single") {
				continue
			}
			if p.versioned && sysName != "mem" {
				continue
			}
			st.Programs++
			wg.Add(1)
			go func(sysName string, p schedProgram) {
				defer wg.Done()
				slots <- struct{}{}
				defer func() { <-slots }()
				mine := &schedStats{PerProg: map[string]int{}, Steps: map[string]int{}}
				var myProblems []string
				exploreProgram(sysName, p, *seed, *max, mine, func(evs []cEvent) {
					mu.Lock()
					defer mu.Unlock()
					nruns++
					for _, e := range evs {
						e.Run = nruns
						enc.Encode(e)
						nevents++
					}
				}, &myProblems)
				mu.Lock()
				defer mu.Unlock()
				st.Schedules += mine.Schedules
				st.Distinct += mine.Distinct
				st.Blocked += mine.Blocked
				st.Diverged += mine.Diverged
				st.Capped = append(st.Capped, mine.Capped...)
				for k, v := range mine.PerProg {
					st.PerProg[k] += v
				}
				for k, v := range mine.Steps {
					if v > st.Steps[k] {
						st.Steps[k] = v
					}
				}
				problems = append(problems, myProblems...)
			}(sysName, p)
		}
	}
	wg.Wait()
	tw.Flush()
	tf.Close()
	b, _ := json.MarshalIndent(map[string]interface{}{"runs": nruns, "events": nevents, "problems": problems, "schedules": st}, "", " ")
	if *out != "" {
		os.WriteFile(*out, b, 0644)
	}
	fmt.Fprintf(os.Stderr, "sched: %d programs, %d schedules, %d distinct histories, %d events, problems %v\n", st.Programs, st.Schedules, st.Distinct, nevents, problems)
}

func init() { commands["sched"] = cmdSched }
