module verif/harness

go 1.16

require (
	github.com/johannesboyne/gofakes3 v0.0.0
	github.com/spf13/afero v1.2.1
	go.etcd.io/bbolt v1.3.5
)

replace github.com/johannesboyne/gofakes3 => /repo
