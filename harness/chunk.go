package main

import (
	"bufio"
	"bytes"
	"encoding/json"
	"flag"
	"fmt"
	"io"
	"math/rand"
	"os"
	"strconv"
	"strings"
	"sync"

	"github.com/johannesboyne/gofakes3"
)

// C12: cases emitted by MC_Chunked, executed against the real aws-chunked
// decoder (direct, through the verif-tagged export) and end to end through
// the HTTP handler of every backend.

type chunkCase struct {
	Chunks []int  `json:"chunks"`
	Final  bool   `json:"final"`
	Frags  []int  `json:"frags"`
	Bufs   []int  `json:"bufs"`
	EOF    string `json:"eof"`
	Mal    string `json:"mal"`
	Expect string `json:"expect"`
}

// fragReader delivers data in reads of at most frags[i] bytes (cyclic).
type fragReader struct {
	data     []byte
	pos, i   int
	frags    []int
	withData bool // return io.EOF together with the last bytes
	reads    int
}

func (f *fragReader) Read(p []byte) (int, error) {
	f.reads++
	if f.pos >= len(f.data) {
		return 0, io.EOF
	}
	q := f.frags[f.i%len(f.frags)]
	f.i++
	if q > len(p) {
		q = len(p)
	}
	if q > len(f.data)-f.pos {
		q = len(f.data) - f.pos
	}
	n := copy(p, f.data[f.pos:f.pos+q])
	f.pos += n
	if f.withData && f.pos >= len(f.data) {
		return n, io.EOF
	}
	return n, nil
}

type builtCase struct {
	wire     []byte
	payload  []byte
	declared int // declared decoded length
}

func buildChunkCase(c *chunkCase, scale int, seed int64) *builtCase {
	r := rand.New(rand.NewSource(seed))
	sig := strings.Repeat("b", 64)
	var wire bytes.Buffer
	var payload []byte
	for _, n := range c.Chunks {
		n = n*scale + (n-1)*(scale/7)
		data := make([]byte, n)
		r.Read(data)
		fmt.Fprintf(&wire, "%x;chunk-signature=%s\r\n", n, sig)
		wire.Write(data)
		wire.WriteString("\r\n")
		payload = append(payload, data...)
	}
	if c.Final {
		fmt.Fprintf(&wire, "0;chunk-signature=%s\r\n\r\n", sig)
	}
	b := &builtCase{wire: wire.Bytes(), payload: payload, declared: len(payload)}
	first := 0
	if len(c.Chunks) > 0 {
		first = c.Chunks[0]*scale + (c.Chunks[0]-1)*(scale/7)
	}
	hdr := len(fmt.Sprintf("%x;chunk-signature=%s\r\n", first, sig))
	switch c.Mal {
	case "nonhex":
		b.wire = append([]byte("zz"), b.wire...)
	case "trunc-header":
		b.wire = b.wire[:hdr/2]
	case "trunc-data":
		cut := hdr + first/2
		if first <= 1 {
			cut = hdr
		}
		b.wire = b.wire[:cut]
	case "declared-short":
		b.declared = len(payload) - 1
	case "declared-long":
		b.declared = len(payload) + 1
	}
	return b
}

func scaled(p []int, s int) []int {
	out := make([]int, len(p))
	for i, v := range p {
		out[i] = v
		if s > 1 {
			out[i] = v*(s/2) + v
		}
	}
	return out
}

type chunkFailure struct {
	Case   chunkCase `json:"case"`
	Scale  int       `json:"scale"`
	Seed   int64     `json:"seed"`
	System string    `json:"system"` // "decoder" for the direct run
	Msg    string    `json:"msg"`
}

// runDecoder drives the real decoder directly.
func runDecoder(c *chunkCase, scale int, seed int64) string {
	b := buildChunkCase(c, scale, seed)
	fr := &fragReader{data: b.wire, frags: scaled(c.Frags, scale), withData: c.EOF == "withdata"}
	dec := gofakes3.NewChunkedReaderForVerif(fr)
	bufs := scaled(c.Bufs, scale)
	var out []byte
	var ferr error
	for i := 0; i < 1000000; i++ {
		buf := make([]byte, bufs[i%len(bufs)])
		n, err := dec.Read(buf)
		if n < 0 || n > len(buf) {
			return fmt.Sprintf("Read returned n=%d for a buffer of %d", n, len(buf))
		}
		out = append(out, buf[:n]...)
		if err != nil {
			ferr = err
			break
		}
		if len(out) > len(b.payload)+16 {
			return fmt.Sprintf("decoder delivered %d bytes, payload has %d", len(out), len(b.payload))
		}
	}
	if ferr == nil {
		return "decoder never reported the end of the stream"
	}
	switch {
	case c.Mal == "" || strings.HasPrefix(c.Mal, "declared"):
		if !bytes.Equal(out, b.payload) {
			return fmt.Sprintf("decoded %d bytes differ from the %d-byte payload (first difference at %d), final error %v",
				len(out), len(b.payload), firstDiff(out, b.payload), ferr)
		}
		if ferr != io.EOF {
			return fmt.Sprintf("well-formed stream ended with error %v", ferr)
		}
	default:
		// a malformed stream must never yield bytes that are not a prefix of the payload
		if !bytes.HasPrefix(b.payload, out) {
			return fmt.Sprintf("malformed stream (%s) yielded bytes that are not a prefix of the payload", c.Mal)
		}
		if c.Mal == "nonhex" && ferr == io.EOF {
			return "non-hex chunk size accepted as a clean end of stream"
		}
	}
	return ""
}

func firstDiff(a, b []byte) int {
	n := len(a)
	if len(b) < n {
		n = len(b)
	}
	for i := 0; i < n; i++ {
		if a[i] != b[i] {
			return i
		}
	}
	return n
}

// runE2E uploads the stream through the HTTP handler and reads the object back.
func runE2E(sysName string, c *chunkCase, scale int, seed int64, overExisting bool) string {
	sys, err := NewSystem(sysName, SysOpts{})
	if err != nil {
		return "harness: " + err.Error()
	}
	defer sys.Close()
	x := NewExec(sys, NewConc(seed, 0, false))
	bucket := "bkt1"
	if !sys.Single() {
		if o := x.Do(Op{"op": "CreateBucket", "b": bucket}); o.Status != 200 {
			return fmt.Sprintf("setup: create bucket -> %d", o.Status)
		}
	}
	old := []byte("the previous content of the object")
	if overExisting {
		r := newReq("PUT", "/"+bucket+"/obj")
		r.setBody(old)
		if o := x.Serve(r); o.Status != 200 {
			return fmt.Sprintf("setup: put -> %d", o.Status)
		}
	}
	b := buildChunkCase(c, scale, seed)
	r := newReq("PUT", "/"+bucket+"/obj")
	r.Header.Set("X-Amz-Content-Sha256", "STREAMING-AWS4-HMAC-SHA256-PAYLOAD")
	r.Header.Set("X-Amz-Decoded-Content-Length", strconv.Itoa(b.declared))
	// the framing is announced by X-Amz-Content-Sha256; Content-Encoding names it alone, together with the
	// object's own coding, not at all, or names only the object's coding (rotating over the cases)
	switch (len(b.wire) + scale + int(seed)) % 5 {
	case 0, 1:
		r.Header.Set("Content-Encoding", "aws-chunked")
	case 2:
		r.Header.Set("Content-Encoding", "aws-chunked,gzip")
	case 3:
		r.Header.Set("Content-Encoding", "gzip")
	}
	r.Header.Set("Content-Length", strconv.Itoa(len(b.wire)))
	r.CLen = int64(len(b.wire))
	r.Body = &fragReader{data: b.wire, frags: scaled(c.Frags, scale), withData: c.EOF == "withdata"}
	o := x.Serve(r)
	if o.Panic != "" {
		return "handler panicked: " + strings.SplitN(o.Panic, "\n", 2)[0]
	}
	if o.Timeout {
		return "handler did not return"
	}
	g := x.Serve(newReq("GET", "/"+bucket+"/obj"))
	if c.Expect == "payload" {
		if o.Status != 200 {
			return fmt.Sprintf("well-formed chunked upload refused: %d %s", o.Status, o.ErrCode())
		}
		if want := quoteETag(b.payload); o.Header.Get("ETag") != want {
			return fmt.Sprintf("upload ETag %s, want %s", o.Header.Get("ETag"), want)
		}
		if g.Status != 200 || !bytes.Equal(g.Body, b.payload) {
			return fmt.Sprintf("stored object differs from the payload: GET %d, %d bytes, want %d (first difference at %d)",
				g.Status, len(g.Body), len(b.payload), firstDiff(g.Body, b.payload))
		}
		return ""
	}
	if o.Status < 400 {
		return fmt.Sprintf("malformed chunked upload (%s) accepted with %d", c.Mal, o.Status)
	}
	if overExisting {
		if g.Status != 200 || !bytes.Equal(g.Body, old) {
			return fmt.Sprintf("rejected chunked upload (%s) changed the stored object: GET %d, %d bytes", c.Mal, g.Status, len(g.Body))
		}
	} else if g.Status != 404 {
		return fmt.Sprintf("rejected chunked upload (%s) left something behind: GET %d, %d bytes", c.Mal, g.Status, len(g.Body))
	}
	// ... nor may it show in what is uploaded next: a well-formed stream to another key, read back
	next := []byte("the payload of the upload that follows the refused one")
	wire := awsChunked(next, []int{20, len(next)}, true)
	nr := newReq("PUT", "/"+bucket+"/next")
	nr.Header.Set("X-Amz-Content-Sha256", "STREAMING-AWS4-HMAC-SHA256-PAYLOAD")
	nr.Header.Set("X-Amz-Decoded-Content-Length", strconv.Itoa(len(next)))
	nr.Header.Set("Content-Encoding", "aws-chunked")
	nr.setBody(wire)
	if no := x.Serve(nr); no.Status != 200 {
		return fmt.Sprintf("the well-formed chunked upload after a refused one (%s) was refused: %d %s", c.Mal, no.Status, no.ErrCode())
	}
	if ng := x.Serve(newReq("GET", "/"+bucket+"/next")); ng.Status != 200 || !bytes.Equal(ng.Body, next) {
		return fmt.Sprintf("the upload after a refused chunked upload (%s) is stored as %d bytes, sent %d (first difference at %d)",
			c.Mal, len(ng.Body), len(next), firstDiff(ng.Body, next))
	}
	return ""
}

type chunkSummary struct {
	Lines     int             `json:"lines"`
	Cases     int             `json:"cases"`
	Decoder   int             `json:"decoder_runs"`
	E2E       int             `json:"e2e_runs"`
	PerSystem map[string]int  `json:"per_system"`
	Failures  []*chunkFailure `json:"failures"`
	NFail     int             `json:"n_failures"`
	Samples   []chunkCase     `json:"samples"`
}

func cmdChunk(args []string) {
	fs := flag.NewFlagSet("chunk", flag.ExitOnError)
	systems := fs.String("systems", "mem", "systems for the end-to-end runs")
	scales := fs.String("scales", "1", "comma-separated scale factors")
	seed := fs.Int64("seed", 1, "seed")
	out := fs.String("out", "", "summary")
	workers := fs.Int("workers", 16, "workers")
	e2eEvery := fs.Int("e2e-every", 1, "run end to end only every n-th case")
	one := fs.String("case", "", "run a single failure file")
	fs.Parse(args)

	if *one != "" {
		b, err := os.ReadFile(*one)
		if err != nil {
			fmt.Fprintln(os.Stderr, err)
			os.Exit(2)
		}
		var f chunkFailure
		json.Unmarshal(b, &f)
		var msg string
		if f.System == "decoder" {
			msg = runDecoder(&f.Case, f.Scale, f.Seed)
		} else {
			msg = runE2E(f.System, &f.Case, f.Scale, f.Seed, f.Case.Mal != "")
		}
		if msg == "" {
			fmt.Println("replay: no mismatch")
			return
		}
		fmt.Println("replay:", msg)
		fmt.Printf("VIOLATION property=C12 replay=%s\n", *one)
		os.Exit(1)
	}

	var scs []int
	for _, s := range strings.Split(*scales, ",") {
		v, _ := strconv.Atoi(s)
		scs = append(scs, v)
	}
	sysList := strings.Split(*systems, ",")
	sum := &chunkSummary{PerSystem: map[string]int{}}
	var mu sync.Mutex
	fail := func(f *chunkFailure) {
		mu.Lock()
		sum.NFail++
		if len(sum.Failures) < 30 {
			sum.Failures = append(sum.Failures, f)
		}
		mu.Unlock()
	}
	type job struct {
		idx int
		c   chunkCase
	}
	jobs := make(chan job, 256)
	var wg sync.WaitGroup
	for w := 0; w < *workers; w++ {
		wg.Add(1)
		go func() {
			defer wg.Done()
			for j := range jobs {
				c := j.c
				for _, sc := range scs {
					sd := *seed*1000003 + int64(j.idx)
					if msg := runDecoder(&c, sc, sd); msg != "" {
						// confirm
						if runDecoder(&c, sc, sd) != "" {
							fail(&chunkFailure{c, sc, sd, "decoder", msg})
						}
					}
					mu.Lock()
					sum.Decoder++
					mu.Unlock()
					if j.idx%*e2eEvery != 0 {
						continue
					}
					for _, s := range sysList {
						over := c.Mal != "" || j.idx%2 == 0
						if msg := runE2E(s, &c, sc, sd, over); msg != "" {
							if runE2E(s, &c, sc, sd, over) != "" {
								fail(&chunkFailure{c, sc, sd, s, msg})
							}
						}
						mu.Lock()
						sum.E2E++
						sum.PerSystem[s]++
						mu.Unlock()
					}
				}
			}
		}()
	}
	rd := bufio.NewReaderSize(os.Stdin, 1<<20)
	idx := 0
	for {
		line, err := rd.ReadString('\n')
		line = strings.TrimSpace(line)
		if strings.HasPrefix(line, `"{`) {
			var s string
			if json.Unmarshal([]byte(line), &s) == nil {
				var t struct {
					Cases []chunkCase `json:"cases"`
				}
				if json.Unmarshal([]byte(s), &t) == nil {
					sum.Lines++
					for _, c := range t.Cases {
						idx++
						if len(sum.Samples) < 3 && idx%101 == 7 {
							sum.Samples = append(sum.Samples, c)
						}
						jobs <- job{idx, c}
					}
				}
			}
		}
		if err != nil {
			break
		}
	}
	close(jobs)
	wg.Wait()
	sum.Cases = idx
	b, _ := json.MarshalIndent(sum, "", " ")
	if *out != "" {
		os.WriteFile(*out, b, 0644)
	}
	fmt.Fprintf(os.Stderr, "chunk: %d cases, %d decoder runs, %d e2e runs, %d failures\n", sum.Cases, sum.Decoder, sum.E2E, sum.NFail)
}

func init() { commands["chunk"] = cmdChunk }
