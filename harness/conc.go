package main

import (
	"bufio"
	"bytes"
	"crypto/md5"
	"encoding/hex"
	"encoding/json"
	"encoding/xml"
	"flag"
	"fmt"
	"io"
	"io/ioutil"
	"math/rand"
	"net/http"
	"net/url"
	"os"
	"sort"
	"strings"
	"sync"
	"sync/atomic"
	"time"

	"github.com/johannesboyne/gofakes3"
)

// C07: concurrent histories recorded for the linearizability check in
// TraceConc.tla.  Events are ordered by one atomic counter read immediately
// before each call and immediately after it returned (no wall clock).

type cEvent struct {
	T   string `json:"t"`
	Seq int64  `json:"-"`
	C   string `json:"c,omitempty"`
	Op  Op     `json:"op,omitempty"`
	R   Op     `json:"r,omitempty"`
	// reset
	Cfg        Op       `json:"cfg,omitempty"`
	Buckets    []string `json:"buckets,omitempty"`
	Versioning string   `json:"versioning,omitempty"`
	Run        int      `json:"run,omitempty"`
	Sys        string   `json:"sys,omitempty"`
	Scenario   string   `json:"scenario,omitempty"`
	// final
	Objs []Op `json:"objs,omitempty"`
}

type concRun struct {
	sys    *System
	seq    int64
	mu     sync.Mutex
	events []cEvent
	atoms  map[string][]byte        // atom -> bytes
	byMD5  map[string]string        // quoted etag -> atom
	md5s   map[string]string        // atom -> md5 hex
	multi  map[string][]interface{} // md5 hex of an assembled multipart body -> its atoms
	bySHA  map[string]string
	seed   int64
	sizes  []int
}

func (cr *concRun) next() int64 { return atomic.AddInt64(&cr.seq, 1) }

func (cr *concRun) record(e cEvent) {
	cr.mu.Lock()
	cr.events = append(cr.events, e)
	cr.mu.Unlock()
}

// atom registers a fresh body atom and returns its bytes.
func (cr *concRun) atom(name string, r *rand.Rand) []byte {
	n := cr.sizes[r.Intn(len(cr.sizes))]
	b := make([]byte, n)
	r.Read(b)
	// make the content self-describing so that torn bodies never equal another atom
	copy(b, []byte(name+"|"))
	cr.mu.Lock()
	cr.atoms[name] = b
	cr.byMD5[quoteETag(b)] = name
	cr.md5s[name] = md5hex(b)
	cr.bySHA[sha256hex(b)] = name
	cr.mu.Unlock()
	return b
}

// bigAtom registers a large body whose content depends on its name and size only; content and digests are
// computed once per process (the part-race sweep uploads the same megabytes in every round).
type bigAtomEntry struct {
	b        []byte
	md5, sha string
}

var bigAtoms = map[string]*bigAtomEntry{}
var bigAtomsMu sync.Mutex

func (cr *concRun) bigAtom(name string, size int) []byte {
	bigAtomsMu.Lock()
	e := bigAtoms[fmt.Sprint(name, "/", size)]
	if e == nil {
		b := make([]byte, size)
		rand.New(rand.NewSource(int64(size)*31 + int64(len(name)))).Read(b)
		copy(b, []byte(name+"|"))
		e = &bigAtomEntry{b: b, md5: md5hex(b), sha: sha256hex(b)}
		bigAtoms[fmt.Sprint(name, "/", size)] = e
	}
	bigAtomsMu.Unlock()
	cr.mu.Lock()
	cr.atoms[name] = e.b
	cr.byMD5[`"`+e.md5+`"`] = name
	cr.md5s[name] = e.md5
	cr.bySHA[e.sha] = name
	cr.mu.Unlock()
	return e.b
}

func (cr *concRun) atomOfBody(b []byte) []interface{} {
	cr.mu.Lock()
	defer cr.mu.Unlock()
	if a, ok := cr.bySHA[sha256hex(b)]; ok {
		return []interface{}{a}
	}
	// an assembled multipart object: a concatenation of whole atoms (every atom starts with "<name>|")
	var parts []interface{}
	rest := b
	for len(rest) > 0 {
		i := bytes.IndexByte(rest, '|')
		if i < 0 {
			parts = nil
			break
		}
		a, ok := cr.atoms[string(rest[:i])]
		if !ok || len(a) > len(rest) || !bytes.Equal(a, rest[:len(a)]) {
			parts = nil
			break
		}
		parts = append(parts, string(rest[:i]))
		rest = rest[len(a):]
	}
	if len(parts) > 0 {
		return parts
	}
	return []interface{}{fmt.Sprintf("?unknown-body-%d-bytes-%s", len(b), sha256hex(b)[:8])}
}

func (cr *concRun) atomOfETag(e string) []interface{} {
	cr.mu.Lock()
	defer cr.mu.Unlock()
	if a, ok := cr.byMD5[e]; ok {
		return []interface{}{a}
	}
	return []interface{}{"?unknown-etag-" + strings.Trim(e, `"`)}
}

func keyBytes(k string) []interface{} { return fromBytes(k) }

// serve runs a request through the handler with an optional gated writer.
func (cr *concRun) serve(method, path string, q url.Values, hdr http.Header, body io.Reader, clen int64, w http.ResponseWriter) {
	u := &url.URL{Path: path, RawQuery: q.Encode()}
	if hdr == nil {
		hdr = http.Header{}
	}
	if body == nil {
		body = http.NoBody
	}
	hr := &http.Request{Method: method, URL: u, Proto: "HTTP/1.1", ProtoMajor: 1, ProtoMinor: 1, Header: hdr,
		Body: ioutil.NopCloser(body), ContentLength: clen, Host: "s3.test", RequestURI: u.RequestURI(), RemoteAddr: "127.0.0.1:1"}
	cr.sys.Handler.ServeHTTP(w, hr)
}

// recWriter is a minimal concurrent-safe ResponseWriter with an optional gate
// that blocks the handler after its first body write.
type recWriter struct {
	hdr    http.Header
	status int
	buf    bytes.Buffer
	gate   chan struct{} // nil: no gate
	atGate chan struct{}
	park   func() // schedule exploration (sched.go): called once, with half of the first write delivered
	writes int
}

func newRecWriter() *recWriter           { return &recWriter{hdr: http.Header{}} }
func (w *recWriter) Header() http.Header { return w.hdr }
func (w *recWriter) WriteHeader(s int) {
	if w.status == 0 {
		w.status = s
	}
}
func (w *recWriter) Write(p []byte) (int, error) {
	if w.status == 0 {
		w.status = 200
	}
	// hand the reader only part of what is offered, then park: the rest of the
	// body is streamed after other requests have run
	if w.gate != nil && w.writes == 0 {
		w.writes++
		half := len(p) / 2
		w.buf.Write(p[:half])
		close(w.atGate)
		<-w.gate
		w.buf.Write(p[half:])
		return len(p), nil
	}
	if w.park != nil && w.writes == 0 && len(p) > 1 {
		w.writes++
		half := len(p) / 2
		w.buf.Write(p[:half])
		w.park()
		w.buf.Write(p[half:])
		return len(p), nil
	}
	w.writes++
	return w.buf.Write(p)
}

// gatedBody delivers half of the data, signals, and waits for the gate.
type gatedBody struct {
	data   []byte
	pos    int
	gate   chan struct{}
	atGate chan struct{}
	park   func() // schedule exploration (sched.go): called instead of the gate
	parked bool
}

func (g *gatedBody) Read(p []byte) (int, error) {
	if g.pos >= len(g.data) {
		return 0, io.EOF
	}
	limit := len(g.data)
	if !g.parked {
		limit = len(g.data) / 2
		if g.pos >= limit {
			g.parked = true
			if g.park != nil {
				g.park()
			} else {
				close(g.atGate)
				<-g.gate
			}
			limit = len(g.data)
		}
	}
	n := copy(p, g.data[g.pos:limit])
	g.pos += n
	return n, nil
}

const concBucket = "bkt1"

// doOp executes one abstract operation for client c and records inv/res.
// gate (optional) is used for the slow uploader / slow reader scenarios.
func (cr *concRun) doOp(c string, op Op, body []byte, slowBody *gatedBody, slowWriter *recWriter) {
	inv := cEvent{T: "inv", C: c, Op: op, Seq: cr.next()}
	w := slowWriter
	if w == nil {
		w = newRecWriter()
	}
	k := toBytes(op["k"])
	bucket := op.S("b")
	if bucket == "" {
		bucket = concBucket
	}
	path := "/" + bucket
	if k != "" {
		path += "/" + k
	}
	q := url.Values{}
	hdr := http.Header{}
	var rd io.Reader
	var clen int64
	method := "GET"
	switch op.S("op") {
	case "PutObject":
		method = "PUT"
		hdr.Set("Content-Length", fmt.Sprint(len(body)))
		clen = int64(len(body))
		if slowBody != nil {
			rd = slowBody
		} else {
			rd = bytes.NewReader(body)
		}
	case "GetObject":
	case "GetObjectVersion":
		q.Set("versionId", op.S("vid"))
	case "HeadObject":
		method = "HEAD"
	case "DeleteObject":
		method = "DELETE"
	case "ListObjects":
		path = "/" + bucket
	case "CopyObject":
		method = "PUT"
		sb := op.S("sb")
		if sb == "" {
			sb = concBucket
		}
		hdr.Set("X-Amz-Copy-Source", "/"+sb+"/"+url.QueryEscape(toBytes(op["sk"])))
		hdr.Set("Content-Length", "0")
	case "UploadPart":
		method = "PUT"
		q.Set("uploadId", op.S("uid"))
		q.Set("partNumber", fmt.Sprint(op.I("n")))
		hdr.Set("Content-Length", fmt.Sprint(len(body)))
		clen = int64(len(body))
		rd = bytes.NewReader(body)
	case "Complete":
		method = "POST"
		q.Set("uploadId", op.S("uid"))
		var sb strings.Builder
		sb.WriteString("<CompleteMultipartUpload>")
		for _, p := range op.List("list") {
			pp := Op(p.(map[string]interface{}))
			cr.mu.Lock()
			sum := cr.md5s[pp.Atoms("body")[0]] // (hashed when the atom was made: building the request must be quick)
			cr.mu.Unlock()
			fmt.Fprintf(&sb, "<Part><PartNumber>%d</PartNumber><ETag>&quot;%s&quot;</ETag></Part>", pp.I("n"), sum)
		}
		sb.WriteString("</CompleteMultipartUpload>")
		bb := []byte(sb.String())
		hdr.Set("Content-Length", fmt.Sprint(len(bb)))
		clen = int64(len(bb))
		rd = bytes.NewReader(bb)
	case "CreateBucket":
		method = "PUT"
		path = "/" + bucket
	case "HeadBucket":
		method = "HEAD"
		path = "/" + bucket
	case "DeleteBucket":
		method = "DELETE"
		path = "/" + bucket
		if op.B("force") {
			hdr.Set("x-minio-force-delete", "true")
		}
	case "Abort":
		method = "DELETE"
		q.Set("uploadId", op.S("uid"))
	case "Initiate":
		method = "POST"
		q.Set("uploads", "")
	case "PutVersioning":
		method = "PUT"
		path = "/" + bucket
		q.Set("versioning", "")
		bb := []byte("<VersioningConfiguration><Status>" + op.S("status") + "</Status></VersioningConfiguration>")
		hdr.Set("Content-Length", fmt.Sprint(len(bb)))
		clen = int64(len(bb))
		rd = bytes.NewReader(bb)
	case "GetVersioning":
		path = "/" + bucket
		q.Set("versioning", "")
	case "DeleteObjectVersion":
		method = "DELETE"
		q.Set("versionId", op.S("vid"))
	case "HeadObjectVersion":
		method = "HEAD"
		q.Set("versionId", op.S("vid"))
	case "DeleteMulti":
		method = "POST"
		path = "/" + bucket
		q.Set("delete", "")
		var sb strings.Builder
		sb.WriteString("<Delete>")
		for _, o := range op.List("objs") {
			oo := Op(o.(map[string]interface{}))
			sb.WriteString("<Object><Key>" + toBytes(oo["k"]) + "</Key>")
			if v := oo.S("vid"); v != "" {
				sb.WriteString("<VersionId>" + v + "</VersionId>")
			}
			sb.WriteString("</Object>")
		}
		sb.WriteString("</Delete>")
		bb := []byte(sb.String())
		hdr.Set("Content-Length", fmt.Sprint(len(bb)))
		clen = int64(len(bb))
		rd = bytes.NewReader(bb)
	}
	cr.serve(method, path, q, hdr, rd, clen, w)
	resSeq := cr.next()
	if w.status == 0 {
		w.status = 200
	}
	r := Op{"st": float64(w.status), "code": ""}
	out := w.buf.Bytes()
	if w.status >= 300 {
		var e xError
		if method == "HEAD" {
			r["code"] = "?"
		} else if xml.Unmarshal(out, &e) == nil {
			r["code"] = e.Code
		}
	} else {
		switch op.S("op") {
		case "PutObject":
			r["etag"] = cr.atomOfETag(w.hdr.Get("ETag"))
			r["vid"] = w.hdr.Get("x-amz-version-id")
			op["vid"] = w.hdr.Get("x-amz-version-id")
		case "UploadPart":
			r["etag"] = cr.atomOfETag(w.hdr.Get("ETag"))
		case "GetObject", "GetObjectVersion":
			r["body"] = cr.atomOfBody(out)
			r["etag"] = cr.atomOfETag(w.hdr.Get("ETag"))
			if cl := w.hdr.Get("Content-Length"); cl != fmt.Sprint(len(out)) {
				r["body"] = []interface{}{fmt.Sprintf("?content-length-%s-but-%d-bytes", cl, len(out))}
			}
			r["vid"] = w.hdr.Get("x-amz-version-id")
		case "HeadObject":
			r["etag"] = cr.atomOfETag(w.hdr.Get("ETag"))
			r["vid"] = w.hdr.Get("x-amz-version-id")
		case "DeleteObject":
			op["vid"] = w.hdr.Get("x-amz-version-id")
			if v := w.hdr.Get("x-amz-version-id"); v != "" {
				r["vid"] = v
			}
		case "ListObjects":
			var lb xListBucket
			keys := []interface{}{}
			if xml.Unmarshal(out, &lb) == nil {
				for _, ct := range lb.Contents {
					keys = append(keys, map[string]interface{}{"k": keyBytes(ct.Key), "body": cr.atomOfETag(ct.ETag)})
				}
			}
			r["keys"] = keys
		case "CopyObject":
			var cp xCopyResult
			xml.Unmarshal(out, &cp)
			r["xetag"] = cr.atomOfETag(cp.ETag)
		case "GetVersioning":
			var vc xVersioning
			xml.Unmarshal(out, &vc)
			r["status"] = vc.Status
		case "DeleteObjectVersion":
			if v := w.hdr.Get("x-amz-version-id"); v != "" {
				r["vid"] = v
			}
		case "HeadObjectVersion":
			r["etag"] = cr.atomOfETag(w.hdr.Get("ETag"))
			r["vid"] = w.hdr.Get("x-amz-version-id")
		case "Initiate":
			var in xInitiate
			xml.Unmarshal(out, &in)
			op["uid"] = in.UploadID
			r["uid"] = in.UploadID
		case "Complete":
			var cm xComplete
			xml.Unmarshal(out, &cm)
			var listed []interface{}
			h := md5.New()
			for _, p := range op.List("list") {
				pp := Op(p.(map[string]interface{}))
				cr.mu.Lock()
				sum, _ := hex.DecodeString(cr.md5s[pp.Atoms("body")[0]])
				cr.mu.Unlock()
				h.Write(sum)
				listed = append(listed, pp["body"])
			}
			if cm.ETag == `"`+hex.EncodeToString(h.Sum(nil))+"-"+fmt.Sprint(len(listed))+`"` {
				r["cetag"] = listed
				// the whole-body MD5 of the assembled object, for reads / copies / listings of it (see sorted)
				whole := md5.New()
				var atoms []interface{}
				for _, p := range listed {
					name := p.([]interface{})[0].(string)
					atoms = append(atoms, name)
					cr.mu.Lock()
					body := cr.atoms[name]
					cr.mu.Unlock()
					whole.Write(body)
				}
				cr.mu.Lock()
				cr.multi[hex.EncodeToString(whole.Sum(nil))] = atoms
				cr.mu.Unlock()
			} else {
				r["cetag"] = []interface{}{[]interface{}{"?wrong-composite-etag"}}
			}
			r["vid"] = w.hdr.Get("x-amz-version-id")
			op["vid"] = w.hdr.Get("x-amz-version-id")
		}
	}
	inv.Op = op
	cr.record(inv)
	cr.record(cEvent{T: "res", C: c, R: r, Seq: resSeq})
}

func (cr *concRun) finalSnapshot(keys []string) cEvent {
	return cr.finalSnapshotOf([]string{concBucket}, keys)
}

func (cr *concRun) finalSnapshotOf(buckets, keys []string) cEvent {
	ev := cEvent{T: "final", Seq: cr.next()}
	for _, b := range buckets {
		for _, k := range keys {
			w := newRecWriter()
			cr.serve("GET", "/"+b+"/"+k, url.Values{}, nil, nil, 0, w)
			o := Op{"b": b, "k": keyBytes(k), "present": w.status == 200 || w.status == 0, "body": []interface{}{}}
			if w.status == 200 || w.status == 0 {
				o["body"] = cr.atomOfBody(w.buf.Bytes())
			}
			ev.Objs = append(ev.Objs, o)
		}
	}
	return ev
}

func isVersioned(b gofakes3.Backend) bool { _, ok := b.(gofakes3.VersionedBackend); return ok }

func newConcRun(sysName string, versioned bool, seed int64, big bool) (*concRun, cEvent, error) {
	return newConcRunOpts(sysName, versioned, seed, big, SysOpts{})
}

func newConcRunOpts(sysName string, versioned bool, seed int64, big bool, so SysOpts) (*concRun, cEvent, error) {
	sys, err := NewSystem(sysName, so)
	if err != nil {
		return nil, cEvent{}, err
	}
	cr := &concRun{sys: sys, atoms: map[string][]byte{}, md5s: map[string]string{}, multi: map[string][]interface{}{}, byMD5: map[string]string{}, bySHA: map[string]string{}, seed: seed}
	cr.sizes = []int{40, 300, 5000, 40000, 70000}
	if big {
		cr.sizes = []int{70000, 140000, 300000}
	}
	x := NewExec(sys, NewConc(seed, 0, false))
	ver := "None"
	if !sys.Single() {
		if o := x.Do(Op{"op": "CreateBucket", "b": concBucket}); o.Status != 200 {
			return nil, cEvent{}, fmt.Errorf("create bucket: %d", o.Status)
		}
	}
	if versioned {
		if o := x.Do(Op{"op": "PutVersioning", "b": concBucket, "status": "Enabled"}); o.Status != 200 {
			return nil, cEvent{}, fmt.Errorf("enable versioning: %d", o.Status)
		}
		ver = "Enabled"
	}
	single := ""
	if sys.Single() {
		single = concBucket
	}
	reset := cEvent{T: "reset", Seq: cr.next(), Cfg: Op{"versioned": sys.Versioned() && (so.Wrap == nil || isVersioned(sys.Backend)), "paginate": sys.Paginates(), "single": single, "auto": so.Auto, "autosteps": so.Auto},
		Buckets: []string{concBucket}, Versioning: ver, Sys: sysName}
	return cr, reset, nil
}

// freeRun: n clients issue m operations each on a few keys, concurrently.
// singleKeyMix: only operations on one key each (no listing, copy, multi-delete, multipart): such histories
// can be decided key by key (linearizability is local).
var singleKeyMix bool

func freeRun(sysName string, versioned bool, clients, m int, nkeys int, seed int64, multipart bool) ([]cEvent, error) {
	cr, reset, err := newConcRun(sysName, versioned, seed, false)
	if err != nil {
		return nil, err
	}
	defer cr.sys.Close()
	keys := []string{"k1", "k2", "d/k3"}[:nkeys]
	cr.record(reset)
	// optional: one multipart upload per key, initiated sequentially
	uids := map[string]string{}
	if multipart {
		for _, k := range keys[:1] {
			op := Op{"op": "Initiate", "b": concBucket, "k": keyBytes(k), "meta": []interface{}{}, "uid": ""}
			cr.doOp("0", op, nil, nil, nil)
			uids[k] = op.S("uid")
		}
	}
	var wg sync.WaitGroup
	var vidMu sync.Mutex
	knownVids := map[string][]string{}
	for ci := 1; ci <= clients; ci++ {
		wg.Add(1)
		go func(ci int) {
			defer wg.Done()
			c := fmt.Sprint(ci)
			r := rand.New(rand.NewSource(seed*7919 + int64(ci)))
			myParts := map[int]string{}
			for i := 0; i < m; i++ {
				k := keys[r.Intn(len(keys))]
				kb := keyBytes(k)
				x := r.Intn(100)
				if singleKeyMix && x >= 78 && x < 94 {
					x -= 50 // a listing becomes an upload, a copy a read
				}
				switch {
				case multipart && k == keys[0] && x < 35:
					n := 1 + r.Intn(2)
					name := fmt.Sprintf("p%d_%d", ci, i)
					body := cr.atom(name, r)
					if len(body) == 0 {
						continue
					}
					op := Op{"op": "UploadPart", "b": concBucket, "k": kb, "uid": uids[k], "n": float64(n), "body": []interface{}{name}}
					cr.doOp(c, op, body, nil, nil)
					myParts[n] = name
				case multipart && k == keys[0] && x < 40 && len(myParts) > 0:
					var ns []int
					for n := range myParts {
						ns = append(ns, n)
					}
					sort.Ints(ns)
					var list []interface{}
					for _, n := range ns {
						list = append(list, map[string]interface{}{"n": float64(n), "body": []interface{}{myParts[n]}})
					}
					op := Op{"op": "Complete", "b": concBucket, "k": kb, "uid": uids[k], "list": list, "vid": ""}
					cr.doOp(c, op, nil, nil, nil)
				case x < 35:
					name := fmt.Sprintf("w%d_%d", ci, i)
					body := cr.atom(name, r)
					op := Op{"op": "PutObject", "b": concBucket, "k": kb, "body": []interface{}{name}, "meta": []interface{}{}, "vid": ""}
					cr.doOp(c, op, body, nil, nil)
					if v := op.S("vid"); v != "" {
						vidMu.Lock()
						knownVids[k] = append(knownVids[k], v)
						vidMu.Unlock()
					}
				case x < 60:
					cr.doOp(c, Op{"op": "GetObject", "b": concBucket, "k": kb}, nil, nil, nil)
				case x < 68:
					cr.doOp(c, Op{"op": "HeadObject", "b": concBucket, "k": kb}, nil, nil, nil)
				case x < 78:
					cr.doOp(c, Op{"op": "DeleteObject", "b": concBucket, "k": kb, "vid": ""}, nil, nil, nil)
				case x < 86:
					cr.doOp(c, Op{"op": "ListObjects", "b": concBucket, "v2": false, "prefix": []interface{}{}, "delim": []interface{}{},
						"max": float64(0), "marker": []interface{}{}, "hasMarker": false}, nil, nil, nil)
				case x < 94:
					sk := keys[r.Intn(len(keys))]
					cr.doOp(c, Op{"op": "CopyObject", "b": concBucket, "k": kb, "sb": concBucket, "sk": keyBytes(sk), "meta": []interface{}{}}, nil, nil, nil)
				default:
					vidMu.Lock()
					vs := knownVids[k]
					vidMu.Unlock()
					if versioned && len(vs) > 0 {
						cr.doOp(c, Op{"op": "GetObjectVersion", "b": concBucket, "k": kb, "vid": vs[r.Intn(len(vs))]}, nil, nil, nil)
					} else {
						cr.doOp(c, Op{"op": "GetObject", "b": concBucket, "k": kb}, nil, nil, nil)
					}
				}
			}
		}(ci)
	}
	wg.Wait()
	cr.record(cr.finalSnapshot(keys))
	return cr.sorted(), nil
}

// seqRun: one client, a long random history over three keys incl. versioning
// status changes, version deletes and multi-deletes: a sequential trace
// validated by the same specification (TraceConc with a single client).
func seqRun(sysName string, m int, seed int64) ([]cEvent, error) {
	cr, reset, err := newConcRun(sysName, false, seed, false)
	if err != nil {
		return nil, err
	}
	defer cr.sys.Close()
	reset.Scenario = "sequential"
	cr.record(reset)
	keys := []string{"k1", "k2", "d/k3"}
	r := rand.New(rand.NewSource(seed * 104729))
	versioned := cr.sys.Versioned()
	known := map[string][]string{}
	// pending multipart uploads: uid -> key, and the part names uploaded under it
	type pend struct {
		key   string
		parts map[int]string
	}
	ups := map[string]*pend{}
	var upOrder []string
	const other = "bkt2" // a second bucket that comes and goes
	for i := 0; i < m; i++ {
		k := keys[r.Intn(len(keys))]
		kb := keyBytes(k)
		// bucket life cycle and multipart life cycle, one step in five
		if y := r.Intn(100); y < 20 {
			switch {
			case y < 3:
				cr.doOp("1", Op{"op": "CreateBucket", "b": other}, nil, nil, nil)
			case y < 5:
				cr.doOp("1", Op{"op": "DeleteBucket", "b": other, "force": r.Intn(3) == 0}, nil, nil, nil)
			case y < 6:
				cr.doOp("1", Op{"op": "HeadBucket", "b": other}, nil, nil, nil)
			case y < 9:
				name := fmt.Sprintf("o%d", i)
				body := cr.atom(name, r)
				cr.doOp("1", Op{"op": "PutObject", "b": other, "k": kb, "body": []interface{}{name}, "meta": []interface{}{}, "vid": ""}, body, nil, nil)
			case y < 10:
				cr.doOp("1", Op{"op": "DeleteObject", "b": other, "k": kb, "vid": ""}, nil, nil, nil)
			case y < 11:
				cr.doOp("1", Op{"op": "CopyObject", "b": concBucket, "k": kb, "sb": other, "sk": keyBytes(keys[r.Intn(len(keys))]), "meta": []interface{}{}}, nil, nil, nil)
			case y < 13 && len(ups) < 3:
				op := Op{"op": "Initiate", "b": concBucket, "k": kb, "meta": []interface{}{}, "uid": ""}
				cr.doOp("1", op, nil, nil, nil)
				if u := op.S("uid"); u != "" {
					ups[u] = &pend{key: k, parts: map[int]string{}}
					upOrder = append(upOrder, u)
				}
			case y < 17 && len(upOrder) > 0:
				u := upOrder[r.Intn(len(upOrder))]
				n := 1 + r.Intn(3)
				name := fmt.Sprintf("p%d", i)
				body := cr.atom(name, r)
				if len(body) == 0 {
					continue
				}
				cr.doOp("1", Op{"op": "UploadPart", "b": concBucket, "k": keyBytes(ups[u].key), "uid": u, "n": float64(n), "body": []interface{}{name}}, body, nil, nil)
				ups[u].parts[n] = name
			case y < 19 && len(upOrder) > 0:
				u := upOrder[r.Intn(len(upOrder))]
				var ns []int
				for n := range ups[u].parts {
					if r.Intn(4) > 0 {
						ns = append(ns, n)
					}
				}
				sort.Ints(ns)
				if len(ns) == 0 {
					continue
				}
				var list []interface{}
				for _, n := range ns {
					list = append(list, map[string]interface{}{"n": float64(n), "body": []interface{}{ups[u].parts[n]}})
				}
				op := Op{"op": "Complete", "b": concBucket, "k": keyBytes(ups[u].key), "uid": u, "list": list, "vid": ""}
				cr.doOp("1", op, nil, nil, nil)
				if v := op.S("vid"); v != "" {
					known[ups[u].key] = append(known[ups[u].key], v)
				}
				delete(ups, u)
				for j, x := range upOrder {
					if x == u {
						upOrder = append(upOrder[:j], upOrder[j+1:]...)
						break
					}
				}
			case len(upOrder) > 0:
				u := upOrder[r.Intn(len(upOrder))]
				cr.doOp("1", Op{"op": "Abort", "b": concBucket, "k": keyBytes(ups[u].key), "uid": u}, nil, nil, nil)
				delete(ups, u)
				for j, x := range upOrder {
					if x == u {
						upOrder = append(upOrder[:j], upOrder[j+1:]...)
						break
					}
				}
			}
			continue
		}
		x := r.Intn(100)
		switch {
		case x < 30:
			name := fmt.Sprintf("s%d", i)
			body := cr.atom(name, r)
			op := Op{"op": "PutObject", "b": concBucket, "k": kb, "body": []interface{}{name}, "meta": []interface{}{}, "vid": ""}
			cr.doOp("1", op, body, nil, nil)
			if v := op.S("vid"); v != "" {
				known[k] = append(known[k], v)
			}
		case x < 45:
			cr.doOp("1", Op{"op": "GetObject", "b": concBucket, "k": kb}, nil, nil, nil)
		case x < 50:
			cr.doOp("1", Op{"op": "HeadObject", "b": concBucket, "k": kb}, nil, nil, nil)
		case x < 60:
			op := Op{"op": "DeleteObject", "b": concBucket, "k": kb, "vid": ""}
			cr.doOp("1", op, nil, nil, nil)
			if v := op.S("vid"); v != "" {
				known[k] = append(known[k], v)
			}
		case x < 66:
			cr.doOp("1", Op{"op": "ListObjects", "b": concBucket, "v2": false, "prefix": []interface{}{}, "delim": []interface{}{},
				"max": float64(0), "marker": []interface{}{}, "hasMarker": false}, nil, nil, nil)
		case x < 72:
			sk := keys[r.Intn(len(keys))]
			cr.doOp("1", Op{"op": "CopyObject", "b": concBucket, "k": kb, "sb": concBucket, "sk": keyBytes(sk), "meta": []interface{}{}}, nil, nil, nil)
		case x < 78 && versioned:
			st := []string{"Enabled", "Suspended"}[r.Intn(2)]
			cr.doOp("1", Op{"op": "PutVersioning", "b": concBucket, "status": st}, nil, nil, nil)
		case x < 80 && versioned:
			cr.doOp("1", Op{"op": "GetVersioning", "b": concBucket}, nil, nil, nil)
		case x < 88 && versioned && len(known[k]) > 0:
			v := known[k][r.Intn(len(known[k]))]
			cr.doOp("1", Op{"op": "DeleteObjectVersion", "b": concBucket, "k": kb, "vid": v}, nil, nil, nil)
		case x < 94 && versioned && len(known[k]) > 0:
			v := known[k][r.Intn(len(known[k]))]
			if r.Intn(2) == 0 {
				cr.doOp("1", Op{"op": "GetObjectVersion", "b": concBucket, "k": kb, "vid": v}, nil, nil, nil)
			} else {
				cr.doOp("1", Op{"op": "HeadObjectVersion", "b": concBucket, "k": kb, "vid": v}, nil, nil, nil)
			}
		default:
			objs := []interface{}{map[string]interface{}{"k": kb, "vid": ""}}
			k2 := keys[r.Intn(len(keys))]
			if k2 != k {
				objs = append(objs, map[string]interface{}{"k": keyBytes(k2), "vid": ""})
			}
			cr.doOp("1", Op{"op": "DeleteMulti", "b": concBucket, "objs": objs}, nil, nil, nil)
		}
	}
	cr.record(cr.finalSnapshotOf([]string{concBucket, other}, keys))
	return cr.sorted(), nil
}

func (cr *concRun) sorted() []cEvent {
	cr.mu.Lock()
	defer cr.mu.Unlock()
	ev := append([]cEvent{}, cr.events...)
	sort.Slice(ev, func(i, j int) bool { return ev[i].Seq < ev[j].Seq })
	// ETags of assembled multipart objects (the MD5 of the whole body: what a copy, a listing or a read of
	// such an object reports) are resolved now that every successful completion has registered its body
	fix := func(v interface{}) interface{} {
		l, ok := v.([]interface{})
		if !ok || len(l) != 1 {
			return v
		}
		s, ok := l[0].(string)
		if !ok || !strings.HasPrefix(s, "?unknown-etag-") {
			return v
		}
		if atoms, ok := cr.multi[strings.TrimPrefix(s, "?unknown-etag-")]; ok {
			return atoms
		}
		return v
	}
	for i := range ev {
		r := ev[i].R
		if r == nil {
			continue
		}
		for _, f := range []string{"etag", "xetag"} {
			if v, ok := r[f]; ok {
				r[f] = fix(v)
			}
		}
		if ks, ok := r["keys"].([]interface{}); ok {
			for _, k := range ks {
				if m, ok := k.(map[string]interface{}); ok {
					m["body"] = fix(m["body"])
				}
			}
		}
	}
	return ev
}

// gatedRun: a slow uploader or slow reader overlapped by another request.
// scenario: "slowput:<other>" | "slowget:<other>", other in put,get,delete,list,copy,head
func gatedRun(sysName string, scenario string, seed int64) ([]cEvent, error) {
	// "v" prefix: in a bucket with versioning enabled; "-fresh" suffix on the first part: on a key never written
	versioned := strings.HasPrefix(scenario, "v")
	cr, reset, err := newConcRun(sysName, versioned, seed, true)
	if err != nil {
		return nil, err
	}
	defer cr.sys.Close()
	reset.Scenario = scenario
	cr.record(reset)
	scenario = strings.TrimPrefix(scenario, "v")
	r := rand.New(rand.NewSource(seed))
	kb := keyBytes("k1")
	finalKeys := []string{"k1", "k2"}
	if i := strings.Index(scenario, "-fresh"); i >= 0 {
		scenario = scenario[:i] + scenario[i+len("-fresh"):]
		kb = keyBytes("k3")
		finalKeys = append(finalKeys, "k3")
	}
	var puts []Op // the uploads to the contended key, for the read-back of their version ids
	// an existing object written sequentially
	b0 := cr.atom("w0_0", r)
	cr.doOp("0", Op{"op": "PutObject", "b": concBucket, "k": keyBytes("k1"), "body": []interface{}{"w0_0"}, "meta": []interface{}{}, "vid": ""}, b0, nil, nil)
	b1 := cr.atom("w0_1", r)
	cr.doOp("0", Op{"op": "PutObject", "b": concBucket, "k": keyBytes("k2"), "body": []interface{}{"w0_1"}, "meta": []interface{}{}, "vid": ""}, b1, nil, nil)

	parts := strings.SplitN(scenario, ":", 2)
	gate := make(chan struct{})
	atGate := make(chan struct{})
	doneA := make(chan struct{})
	switch parts[0] {
	case "slowput":
		body := cr.atom("w1_0", r)
		gb := &gatedBody{data: body, gate: gate, atGate: atGate}
		opA := Op{"op": "PutObject", "b": concBucket, "k": kb, "body": []interface{}{"w1_0"}, "meta": []interface{}{}, "vid": ""}
		puts = append(puts, opA)
		go func() {
			defer close(doneA)
			cr.doOp("1", opA, body, gb, nil)
		}()
	case "slowget":
		w := newRecWriter()
		w.gate, w.atGate = gate, atGate
		go func() {
			defer close(doneA)
			cr.doOp("1", Op{"op": "GetObject", "b": concBucket, "k": kb}, nil, nil, w)
		}()
	}
	select {
	case <-atGate:
	case <-doneA:
	case <-time.After(10 * time.Second):
		return nil, fmt.Errorf("scenario %s: first request neither reached its gate nor returned", scenario)
	}
	doneB := make(chan struct{})
	go func() {
		defer close(doneB)
		switch parts[1] {
		case "put":
			body := cr.atom("w2_0", r)
			opB := Op{"op": "PutObject", "b": concBucket, "k": kb, "body": []interface{}{"w2_0"}, "meta": []interface{}{}, "vid": ""}
			puts = append(puts, opB)
			cr.doOp("2", opB, body, nil, nil)
		case "get":
			cr.doOp("2", Op{"op": "GetObject", "b": concBucket, "k": kb}, nil, nil, nil)
		case "head":
			cr.doOp("2", Op{"op": "HeadObject", "b": concBucket, "k": kb}, nil, nil, nil)
		case "delete":
			cr.doOp("2", Op{"op": "DeleteObject", "b": concBucket, "k": kb, "vid": ""}, nil, nil, nil)
		case "list":
			cr.doOp("2", Op{"op": "ListObjects", "b": concBucket, "v2": false, "prefix": []interface{}{}, "delim": []interface{}{},
				"max": float64(0), "marker": []interface{}{}, "hasMarker": false}, nil, nil, nil)
		case "copyonto":
			cr.doOp("2", Op{"op": "CopyObject", "b": concBucket, "k": kb, "sb": concBucket, "sk": keyBytes("k2"), "meta": []interface{}{}}, nil, nil, nil)
		case "copyfrom":
			cr.doOp("2", Op{"op": "CopyObject", "b": concBucket, "k": keyBytes("k2"), "sb": concBucket, "sk": kb, "meta": []interface{}{}}, nil, nil, nil)
		}
	}()
	// the second request may have to wait for the first (the fs backends hold
	// their lock while reading the body): that is not a verdict, only an order
	select {
	case <-doneB:
	case <-time.After(300 * time.Millisecond):
	}
	close(gate)
	for _, ch := range []chan struct{}{doneA, doneB} {
		select {
		case <-ch:
		case <-time.After(20 * time.Second):
			return nil, fmt.Errorf("scenario %s: request did not return after the gate was opened (deadlock?)", scenario)
		}
	}
	// every version id handed out names exactly that upload, afterwards too
	for _, p := range puts {
		if v := p.S("vid"); v != "" {
			cr.doOp("0", Op{"op": "GetObjectVersion", "b": concBucket, "k": kb, "vid": v}, nil, nil, nil)
		}
	}
	cr.record(cr.finalSnapshot(finalKeys))
	return cr.sorted(), nil
}

// partRaceRun: a part is uploaded again (with a different body) while a completion naming the old
// ETags is under way; the two requests are started dA and dB after a common instant.  The leading
// parts are large so that validating and assembling takes a while (milliseconds).
func partRaceRun(sysName string, dA, dB time.Duration, seed int64) ([]cEvent, error) {
	cr, reset, err := newConcRun(sysName, false, seed, false)
	if err != nil {
		return nil, err
	}
	defer cr.sys.Close()
	reset.Scenario = fmt.Sprintf("partrace:%v/%v", dA, dB)
	cr.record(reset)
	kb := keyBytes("k1")
	init := Op{"op": "Initiate", "b": concBucket, "k": kb, "meta": []interface{}{}, "uid": ""}
	cr.doOp("0", init, nil, nil, nil)
	uid := init.S("uid")
	var list []interface{}
	const nparts = 4
	for n := 1; n <= nparts; n++ {
		name := fmt.Sprintf("p0_%d", n)
		size := 4 << 20
		if n == nparts {
			size = 2000
		}
		body := cr.bigAtom(name, size)
		cr.doOp("0", Op{"op": "UploadPart", "b": concBucket, "k": kb, "uid": uid, "n": float64(n), "body": []interface{}{name}}, body, nil, nil)
		list = append(list, map[string]interface{}{"n": float64(n), "body": []interface{}{name}})
	}
	// (the new body is large: its upload is looked up, then hashed for milliseconds, then stored)
	again := cr.bigAtom("p2_again", 4<<20)
	start := make(chan struct{})
	var wg sync.WaitGroup
	wg.Add(2)
	go func() {
		defer wg.Done()
		<-start
		time.Sleep(dA)
		cr.doOp("1", Op{"op": "Complete", "b": concBucket, "k": kb, "uid": uid, "list": list, "vid": ""}, nil, nil, nil)
	}()
	go func() {
		defer wg.Done()
		<-start
		time.Sleep(dB)
		cr.doOp("2", Op{"op": "UploadPart", "b": concBucket, "k": kb, "uid": uid, "n": float64(nparts), "body": []interface{}{"p2_again"}}, again, nil, nil)
	}()
	close(start)
	wg.Wait()
	cr.doOp("0", Op{"op": "GetObject", "b": concBucket, "k": kb}, nil, nil, nil)
	cr.record(cr.finalSnapshot([]string{"k1"}))
	return cr.sorted(), nil
}

// recreateRun: a slow uploader's PUT into an empty bucket is overlapped by a complete DeleteBucket and a complete
// CreateBucket of the same name (three overlapping requests); then the body arrives.
func recreateRun(sysName string, versioned bool, seed int64) ([]cEvent, error) {
	cr, reset, err := newConcRun(sysName, versioned, seed, true)
	if err != nil {
		return nil, err
	}
	defer cr.sys.Close()
	reset.Scenario = "slowput:delete-and-recreate-bucket"
	cr.record(reset)
	r := rand.New(rand.NewSource(seed))
	kb := keyBytes("k1")
	gate := make(chan struct{})
	atGate := make(chan struct{})
	doneA := make(chan struct{})
	body := cr.atom("w1_0", r)
	gb := &gatedBody{data: body, gate: gate, atGate: atGate}
	go func() {
		defer close(doneA)
		cr.doOp("1", Op{"op": "PutObject", "b": concBucket, "k": kb, "body": []interface{}{"w1_0"}, "meta": []interface{}{}, "vid": ""}, body, gb, nil)
	}()
	select {
	case <-atGate:
	case <-doneA:
	case <-time.After(10 * time.Second):
		return nil, fmt.Errorf("scenario recreate: the upload neither reached its gate nor returned")
	}
	doneB := make(chan struct{})
	go func() {
		defer close(doneB)
		cr.doOp("2", Op{"op": "DeleteBucket", "b": concBucket}, nil, nil, nil)
		cr.doOp("2", Op{"op": "CreateBucket", "b": concBucket}, nil, nil, nil)
	}()
	select {
	case <-doneB:
	case <-time.After(300 * time.Millisecond):
	}
	close(gate)
	for _, ch := range []chan struct{}{doneA, doneB} {
		select {
		case <-ch:
		case <-time.After(20 * time.Second):
			return nil, fmt.Errorf("scenario recreate: a request did not return after the gate was opened (deadlock?)")
		}
	}
	cr.doOp("0", Op{"op": "GetObject", "b": concBucket, "k": kb}, nil, nil, nil)
	cr.record(cr.finalSnapshot([]string{"k1"}))
	return cr.sorted(), nil
}

// gateBackend parks the first PutObject call after it has been armed: the
// multipart completion is then suspended inside the backend write, holding
// whatever locks the uploader holds at that point.
type gateBackend struct {
	gofakes3.Backend
	mu     sync.Mutex
	armed  bool
	gate   chan struct{}
	atGate chan struct{}
}

func (g *gateBackend) PutObject(bucket, key string, meta map[string]string, input io.Reader, size int64) (gofakes3.PutObjectResult, error) {
	g.mu.Lock()
	wait := g.armed
	g.armed = false
	g.mu.Unlock()
	if wait {
		close(g.atGate)
		<-g.gate
	}
	return g.Backend.PutObject(bucket, key, meta, input, size)
}

// completeRun: a CompleteMultipartUpload suspended inside its backend write,
// overlapped by another request on the same upload / key / bucket.
func completeRun(sysName string, other string, seed int64) ([]cEvent, error) {
	gb := &gateBackend{gate: make(chan struct{}), atGate: make(chan struct{})}
	cr, reset, err := newConcRunOpts(sysName, false, seed, false, SysOpts{Wrap: func(b gofakes3.Backend) gofakes3.Backend { gb.Backend = b; return gb }})
	if err != nil {
		return nil, err
	}
	defer cr.sys.Close()
	reset.Scenario = "complete:" + other
	cr.record(reset)
	r := rand.New(rand.NewSource(seed))
	kb := keyBytes("k1")
	b0 := cr.atom("w0_0", r)
	cr.doOp("0", Op{"op": "PutObject", "b": concBucket, "k": kb, "body": []interface{}{"w0_0"}, "meta": []interface{}{}, "vid": ""}, b0, nil, nil)
	init := Op{"op": "Initiate", "b": concBucket, "k": kb, "meta": []interface{}{}, "uid": ""}
	cr.doOp("0", init, nil, nil, nil)
	uid := init.S("uid")
	p1 := cr.atom("p0_1", r)
	cr.doOp("0", Op{"op": "UploadPart", "b": concBucket, "k": kb, "uid": uid, "n": float64(1), "body": []interface{}{"p0_1"}}, p1, nil, nil)
	init2 := Op{"op": "Initiate", "b": concBucket, "k": keyBytes("k2"), "meta": []interface{}{}, "uid": ""}
	cr.doOp("0", init2, nil, nil, nil)

	gb.mu.Lock()
	gb.armed = true
	gb.mu.Unlock()
	doneA := make(chan struct{})
	go func() {
		defer close(doneA)
		list := []interface{}{map[string]interface{}{"n": float64(1), "body": []interface{}{"p0_1"}}}
		cr.doOp("1", Op{"op": "Complete", "b": concBucket, "k": kb, "uid": uid, "list": list, "vid": ""}, nil, nil, nil)
	}()
	select {
	case <-gb.atGate:
	case <-doneA:
	case <-time.After(10 * time.Second):
		return nil, fmt.Errorf("scenario complete:%s: the completion neither reached the backend write nor returned", other)
	}
	doneB := make(chan struct{})
	go func() {
		defer close(doneB)
		switch other {
		case "uploadpart":
			p2 := cr.atom("p2_2", r)
			cr.doOp("2", Op{"op": "UploadPart", "b": concBucket, "k": kb, "uid": uid, "n": float64(2), "body": []interface{}{"p2_2"}}, p2, nil, nil)
		case "uploadpart-other":
			p2 := cr.atom("p2_2", r)
			cr.doOp("2", Op{"op": "UploadPart", "b": concBucket, "k": keyBytes("k2"), "uid": init2.S("uid"), "n": float64(1), "body": []interface{}{"p2_2"}}, p2, nil, nil)
		case "complete":
			list := []interface{}{map[string]interface{}{"n": float64(1), "body": []interface{}{"p0_1"}}}
			cr.doOp("2", Op{"op": "Complete", "b": concBucket, "k": kb, "uid": uid, "list": list, "vid": ""}, nil, nil, nil)
		case "get":
			cr.doOp("2", Op{"op": "GetObject", "b": concBucket, "k": kb}, nil, nil, nil)
		case "initiate":
			cr.doOp("2", Op{"op": "Initiate", "b": concBucket, "k": keyBytes("k2"), "meta": []interface{}{}, "uid": ""}, nil, nil, nil)
		}
	}()
	select {
	case <-doneB:
	case <-time.After(300 * time.Millisecond):
	}
	close(gb.gate)
	for _, ch := range []chan struct{}{doneA, doneB} {
		select {
		case <-ch:
		case <-time.After(20 * time.Second):
			return nil, fmt.Errorf("scenario complete:%s: a request did not return after the backend write was resumed (deadlock?)", other)
		}
	}
	cr.record(cr.finalSnapshot([]string{"k1"}))
	return cr.sorted(), nil
}

// ---- scale scenarios: single-client histories that cross a count or size threshold, validated by TraceConc ----

// idBoundaryRun: uploads whose server-issued ids straddle a change of length (should ids be counters: 9 | 10, 99 | 100)
// pending on ONE key at the same time, with parts in each; they are completed and aborted in every order position,
// and the others must stay what they were (their parts are uploaded again and they are completed in turn).
func idBoundaryRun(sysName string, seed int64) ([]cEvent, error) {
	cr, reset, err := newConcRun(sysName, false, seed, false)
	if err != nil {
		return nil, err
	}
	defer cr.sys.Close()
	reset.Scenario = "upload-id-boundary"
	cr.record(reset)
	r := rand.New(rand.NewSource(seed))
	cr.sizes = []int{9, 17}
	k1, k2 := keyBytes("k1"), keyBytes("k2")
	initiate := func(k []interface{}) string {
		op := Op{"op": "Initiate", "b": concBucket, "k": k, "meta": []interface{}{}, "uid": ""}
		cr.doOp("1", op, nil, nil, nil)
		return op.S("uid")
	}
	natom := 0
	part := func(k []interface{}, uid string, n int) []interface{} {
		natom++
		name := fmt.Sprintf("b%d", natom)
		body := cr.atom(name, r)
		cr.doOp("1", Op{"op": "UploadPart", "b": concBucket, "k": k, "uid": uid, "n": float64(n), "body": []interface{}{name}}, body, nil, nil)
		return []interface{}{map[string]interface{}{"n": float64(n), "body": []interface{}{name}}}
	}
	for _, boundary := range []int{9, 99} {
		// bring the number of uploads ever initiated to boundary-2, then four uploads on k1 around the boundary
		var uids []string
		var lists [][]interface{}
		total := 0
		if boundary == 99 {
			total = 13 // (what the first round initiated)
		}
		for total < boundary-2 {
			u := initiate(k2)
			cr.doOp("1", Op{"op": "Abort", "b": concBucket, "k": k2, "uid": u}, nil, nil, nil)
			total++
		}
		for i := 0; i < 4; i++ {
			u := initiate(k1)
			uids = append(uids, u)
			lists = append(lists, part(k1, u, 1))
		}
		// complete the third, abort the second, then the remaining two must still be whole
		cr.doOp("1", Op{"op": "Complete", "b": concBucket, "k": k1, "uid": uids[2], "list": lists[2], "vid": ""}, nil, nil, nil)
		cr.doOp("1", Op{"op": "GetObject", "b": concBucket, "k": k1}, nil, nil, nil)
		cr.doOp("1", Op{"op": "Abort", "b": concBucket, "k": k1, "uid": uids[1]}, nil, nil, nil)
		for _, i := range []int{3, 0} {
			l2 := part(k1, uids[i], 2)
			cr.doOp("1", Op{"op": "Complete", "b": concBucket, "k": k1, "uid": uids[i], "list": append(append([]interface{}{}, lists[i]...), l2...), "vid": ""}, nil, nil, nil)
			cr.doOp("1", Op{"op": "GetObject", "b": concBucket, "k": k1}, nil, nil, nil)
		}
		// everything named again: all four are gone now
		for _, u := range uids {
			cr.doOp("1", Op{"op": "Abort", "b": concBucket, "k": k1, "uid": u}, nil, nil, nil)
		}
	}
	cr.record(cr.finalSnapshot([]string{"k1", "k2"}))
	return cr.sorted(), nil
}

// bigMultipartRun: one upload with more than a thousand parts (the listing page limit), completed with all of
// them, and the object read back.
func bigMultipartRun(sysName string, nparts int, seed int64) ([]cEvent, error) {
	cr, reset, err := newConcRun(sysName, false, seed, false)
	if err != nil {
		return nil, err
	}
	defer cr.sys.Close()
	reset.Scenario = fmt.Sprintf("big-multipart:%d", nparts)
	cr.record(reset)
	r := rand.New(rand.NewSource(seed))
	cr.sizes = []int{9, 17}
	kb := keyBytes("k1")
	init := Op{"op": "Initiate", "b": concBucket, "k": kb, "meta": []interface{}{}, "uid": ""}
	cr.doOp("1", init, nil, nil, nil)
	uid := init.S("uid")
	var list []interface{}
	nums := []int{}
	for n := 1; n <= nparts; n++ {
		nums = append(nums, n)
	}
	// part numbers at powers of two and at the upper limit, each the highest of the upload when it arrives
	nums = append(nums, 2047, 2048, 4095, 4096, 4097, 8191, 8192, 8193, 9999, 10000)
	for _, n := range nums {
		name := fmt.Sprintf("p%d", n)
		body := cr.atom(name, r)
		cr.doOp("1", Op{"op": "UploadPart", "b": concBucket, "k": kb, "uid": uid, "n": float64(n), "body": []interface{}{name}}, body, nil, nil)
		list = append(list, map[string]interface{}{"n": float64(n), "body": []interface{}{name}})
	}
	cr.doOp("1", Op{"op": "Complete", "b": concBucket, "k": kb, "uid": uid, "list": list, "vid": ""}, nil, nil, nil)
	cr.doOp("1", Op{"op": "GetObject", "b": concBucket, "k": kb}, nil, nil, nil)
	cr.record(cr.finalSnapshot([]string{"k1"}))
	return cr.sorted(), nil
}

// versionCounterRun: the backend has issued almost 100000 version ids (writes to another bucket through the
// Backend API, not recorded: the model never hears of that bucket) when a versioned key receives its versions,
// which are then read by id and deleted newest first with a read after every delete.
func versionCounterRun(sysName string, warm int, seed int64) ([]cEvent, error) {
	cr, reset, err := newConcRun(sysName, true, seed, false)
	if err != nil {
		return nil, err
	}
	defer cr.sys.Close()
	reset.Scenario = fmt.Sprintf("version-counter:%d", warm)
	cr.record(reset)
	be := cr.sys.Backend
	if err := be.CreateBucket("warm"); err != nil {
		return nil, err
	}
	for i := 0; i < warm; i++ {
		if _, err := be.PutObject("warm", "w", nil, bytes.NewReader([]byte{byte(i)}), 1); err != nil {
			return nil, err
		}
	}
	r := rand.New(rand.NewSource(seed))
	cr.sizes = []int{20}
	kb := keyBytes("k1")
	var vids []string
	for i := 0; i < 20; i++ {
		name := fmt.Sprintf("v%d", i)
		body := cr.atom(name, r)
		op := Op{"op": "PutObject", "b": concBucket, "k": kb, "body": []interface{}{name}, "meta": []interface{}{}, "vid": ""}
		cr.doOp("1", op, body, nil, nil)
		vids = append(vids, op.S("vid"))
	}
	for _, v := range vids {
		cr.doOp("1", Op{"op": "GetObjectVersion", "b": concBucket, "k": kb, "vid": v}, nil, nil, nil)
	}
	for i := len(vids) - 1; i >= 0; i-- {
		cr.doOp("1", Op{"op": "DeleteObjectVersion", "b": concBucket, "k": kb, "vid": vids[i]}, nil, nil, nil)
		cr.doOp("1", Op{"op": "GetObject", "b": concBucket, "k": kb}, nil, nil, nil)
	}
	cr.record(cr.finalSnapshot([]string{"k1"}))
	return cr.sorted(), nil
}

// hugeBodyRun: bodies around and beyond the sizes at which the upload path changes its buffering (1 MiB, the
// 64 MiB preallocation limit): written, read, copied, overwritten.
func hugeBodyRun(sysName string, sizes []int, seed int64) ([]cEvent, error) {
	cr, reset, err := newConcRun(sysName, false, seed, false)
	if err != nil {
		return nil, err
	}
	defer cr.sys.Close()
	reset.Scenario = fmt.Sprintf("huge-bodies:%v", sizes)
	cr.record(reset)
	for i, size := range sizes {
		k := []string{"k1", "k2"}[i%2]
		kb := keyBytes(k)
		name := fmt.Sprintf("h%d", i)
		body := cr.bigAtom(name, size)
		cr.doOp("1", Op{"op": "PutObject", "b": concBucket, "k": kb, "body": []interface{}{name}, "meta": []interface{}{}, "vid": ""}, body, nil, nil)
		cr.doOp("1", Op{"op": "GetObject", "b": concBucket, "k": kb}, nil, nil, nil)
		cr.doOp("1", Op{"op": "HeadObject", "b": concBucket, "k": kb}, nil, nil, nil)
		cr.doOp("1", Op{"op": "CopyObject", "b": concBucket, "k": keyBytes("d/k3"), "sb": concBucket, "sk": kb, "meta": []interface{}{}}, nil, nil, nil)
		cr.doOp("1", Op{"op": "GetObject", "b": concBucket, "k": keyBytes("d/k3")}, nil, nil, nil)
	}
	cr.record(cr.finalSnapshot([]string{"k1", "k2", "d/k3"}))
	return cr.sorted(), nil
}

// withDeadline runs one recording with a watchdog: a run whose requests never return (a deadlock in the code
// under test) is reported as a problem instead of hanging the whole harness; its goroutines are abandoned.
var runDeadline = 60 * time.Second
var runHangs int32

var errSkippedAfterHangs = fmt.Errorf("skipped: two earlier runs of this harness invocation hung")

func withDeadline(what string, run func() ([]cEvent, error)) ([]cEvent, error) {
	if atomic.LoadInt32(&runHangs) >= 2 {
		// (circuit breaker: a deadlocking change would otherwise cost the deadline once per run)
		return nil, errSkippedAfterHangs
	}
	type result struct {
		evs []cEvent
		err error
	}
	ch := make(chan result, 1)
	go func() {
		evs, err := run()
		ch <- result{evs, err}
	}()
	select {
	case r := <-ch:
		return r.evs, r.err
	case <-time.After(runDeadline):
		atomic.AddInt32(&runHangs, 1)
		return nil, fmt.Errorf("%s: the run did not finish within %v: requests never returned (deadlock?)", what, runDeadline)
	}
}

func cmdConc(args []string) {
	fs := flag.NewFlagSet("conc", flag.ExitOnError)
	systems := fs.String("systems", "mem", "systems")
	seed := fs.Int64("seed", 1, "seed")
	runs := fs.Int("runs", 4, "free runs per system and client count")
	clientsList := fs.String("clients", "2,3", "client counts")
	opsPer := fs.Int("ops", 12, "operations per client")
	nkeys := fs.Int("keys", 2, "keys")
	trace := fs.String("trace", "", "NDJSON output")
	gated := fs.Bool("gated", true, "include the slow uploader / slow reader scenarios")
	fs.BoolVar(&singleKeyMix, "single-key-mix", false, "free runs use single-key operations only")
	big := fs.String("big", "", "scale scenarios instead of concurrent runs: multipart,counter,huge,huge64 (comma separated)")
	partRace := fs.Int("partrace", 0, "rounds of the re-upload-during-complete sweep")
	seqOps := fs.Int("seq", 0, "instead of concurrent runs: sequential random histories of this many operations")
	out := fs.String("out", "", "summary")
	fs.Parse(args)
	tf, err := os.Create(*trace)
	if err != nil {
		fmt.Fprintln(os.Stderr, err)
		os.Exit(2)
	}
	tw := bufio.NewWriterSize(tf, 1<<20)
	enc := json.NewEncoder(tw)
	nruns, nevents := 0, 0
	perSys := map[string]int{}
	var problems []string
	write := func(evs []cEvent, sys string) {
		nruns++
		perSys[sys]++
		for _, e := range evs {
			e.Run = nruns
			enc.Encode(e)
			nevents++
		}
	}
	for _, sysName := range strings.Split(*systems, ",") {
		if *big != "" {
			for _, sc := range strings.Split(*big, ",") {
				var run func() ([]cEvent, error)
				switch sc {
				case "multipart":
					run = func() ([]cEvent, error) { return bigMultipartRun(sysName, 1003, *seed) }
				case "idboundary":
					run = func() ([]cEvent, error) { return idBoundaryRun(sysName, *seed) }
				case "counter":
					run = func() ([]cEvent, error) { return versionCounterRun(sysName, 99990, *seed) }
				case "huge":
					run = func() ([]cEvent, error) {
						return hugeBodyRun(sysName, []int{1<<20 - 1, 1 << 20, 1<<20 + 1, 5 << 20, 8<<20 + 3}, *seed)
					}
				case "huge64":
					run = func() ([]cEvent, error) { return hugeBodyRun(sysName, []int{33 << 20, 64<<20 + 4096}, *seed) }
				default:
					continue
				}
				if sc == "counter" {
					if s0, err := NewSystem(sysName, SysOpts{}); err == nil {
						v := s0.Versioned()
						s0.Close()
						if !v {
							continue
						}
					}
				}
				evs, err := withDeadline(sc+" on "+sysName, run)
				if err != nil {
					if err != errSkippedAfterHangs {
						problems = append(problems, sysName+": "+err.Error())
					}
					continue
				}
				write(evs, sysName)
			}
			continue
		}
		if *seqOps > 0 {
			for i := 0; i < *runs; i++ {
				evs, err := withDeadline("seqRun on "+sysName, func() ([]cEvent, error) { return seqRun(sysName, *seqOps, *seed*977+int64(i)) })
				if err != nil {
					if err != errSkippedAfterHangs {
						problems = append(problems, err.Error())
					}
					continue
				}
				write(evs, sysName)
			}
			continue
		}
		for _, cs := range strings.Split(*clientsList, ",") {
			var clients int
			fmt.Sscan(cs, &clients)
			for i := 0; i < *runs; i++ {
				versioned := sysName == "mem" && i%2 == 1
				multipart := i%3 == 2 && !singleKeyMix
				evs, err := withDeadline("freeRun on "+sysName, func() ([]cEvent, error) {
					return freeRun(sysName, versioned, clients, *opsPer, *nkeys, *seed*1000+int64(i)*31+int64(clients), multipart)
				})
				if err != nil {
					if err != errSkippedAfterHangs {
						problems = append(problems, err.Error())
					}
					continue
				}
				write(evs, sysName)
			}
		}
		// a part uploaded again while the completion is under way: a sweep over the relative start
		for i := 0; i < *partRace; i++ {
			d := time.Duration(i-*partRace*3/4) * 400 * time.Microsecond
			dA, dB := time.Duration(0), d
			if d < 0 {
				dA, dB = -d, 0
			}
			evs, err := withDeadline("partRaceRun on "+sysName, func() ([]cEvent, error) { return partRaceRun(sysName, dA, dB, *seed+int64(i)) })
			if err != nil {
				if err != errSkippedAfterHangs {
					problems = append(problems, sysName+": "+err.Error())
				}
				continue
			}
			write(evs, sysName)
		}
		if *gated {
			for _, first := range []string{"slowput", "slowget"} {
				for _, other := range []string{"put", "get", "head", "delete", "list", "copyonto", "copyfrom"} {
					evs, err := withDeadline("gatedRun on "+sysName, func() ([]cEvent, error) { return gatedRun(sysName, first+":"+other, *seed) })
					if err != nil {
						if err != errSkippedAfterHangs {
							problems = append(problems, sysName+": "+err.Error())
						}
						continue
					}
					write(evs, sysName)
				}
			}
			if sys0, err := NewSystem(sysName, SysOpts{}); err == nil {
				ver := sys0.Versioned()
				sys0.Close()
				if ver {
					for _, sc := range []string{"vslowput:put", "vslowput:delete", "vslowput:get", "vslowput-fresh:put", "vslowput-fresh:delete", "vslowput:copyonto"} {
						evs, err := withDeadline("gatedRun on "+sysName, func() ([]cEvent, error) { return gatedRun(sysName, sc, *seed) })
						if err != nil {
							if err != errSkippedAfterHangs {
								problems = append(problems, sysName+": "+err.Error())
							}
							continue
						}
						write(evs, sysName)
					}
				}
			}
			if !strings.HasPrefix(sysName, "single") {
				evs, err := withDeadline("recreateRun on "+sysName, func() ([]cEvent, error) { return recreateRun(sysName, false, *seed) })
				if err != nil {
					if err != errSkippedAfterHangs {
						problems = append(problems, sysName+": "+err.Error())
					}
				} else {
					write(evs, sysName)
				}
			}
			for _, other := range []string{"uploadpart", "uploadpart-other", "complete", "get", "initiate"} {
				evs, err := withDeadline("completeRun on "+sysName, func() ([]cEvent, error) { return completeRun(sysName, other, *seed) })
				if err != nil {
					if err != errSkippedAfterHangs {
						problems = append(problems, sysName+": "+err.Error())
					}
					continue
				}
				write(evs, sysName)
			}
		}
	}
	tw.Flush()
	tf.Close()
	b, _ := json.MarshalIndent(map[string]interface{}{"runs": nruns, "events": nevents, "per_system": perSys, "problems": problems}, "", " ")
	if *out != "" {
		os.WriteFile(*out, b, 0644)
	}
	fmt.Fprintf(os.Stderr, "conc: %d runs, %d events, problems %v\n", nruns, nevents, problems)
}

func init() { commands["conc"] = cmdConc }
