package main

import (
	"bufio"
	"bytes"
	"encoding/json"
	"encoding/xml"
	"flag"
	"fmt"
	"io/ioutil"
	"math/rand"
	"net"
	"net/http"
	"os"
	"os/exec"
	"path/filepath"
	"strings"
	"sync"
	"syscall"
	"time"
)

// C15 (thorough): the real cmd/gofakes3 binary is run on persistent storage,
// clients issue uploads, overwrites and deletes over TCP, the process is
// killed with SIGKILL at a seeded instant, restarted on the same storage, and
// the store is read back.  The recorded history (inv/res/crash events) is
// validated by TraceConc: acknowledged writes survive, in-flight writes are
// wholly present or wholly absent, the store opens and lists.

type killRun struct {
	*concRun
	bin     string
	kind    string // bolt | fs | directfs
	dir     string
	port    int
	cmd     *exec.Cmd
	client  *http.Client
	baseURL string
}

func freePort() int {
	l, err := net.Listen("tcp", "127.0.0.1:0")
	if err != nil {
		return 0
	}
	defer l.Close()
	return l.Addr().(*net.TCPAddr).Port
}

func (kr *killRun) start() error {
	kr.port = freePort()
	args := []string{"-host", fmt.Sprintf("127.0.0.1:%d", kr.port), "-quiet"}
	switch kr.kind {
	case "bolt":
		args = append(args, "-backend", "bolt", "-bolt.db", filepath.Join(kr.dir, "s3.db"), "-initialbucket", concBucket)
	case "fs":
		args = append(args, "-backend", "fs", "-fs.path", filepath.Join(kr.dir, "fs"), "-fs.create", "-initialbucket", concBucket)
	case "directfs":
		args = append(args, "-backend", "directfs", "-directfs.path", filepath.Join(kr.dir, "data"), "-directfs.meta", filepath.Join(kr.dir, "meta"),
			"-directfs.bucket", concBucket, "-directfs.create")
	}
	kr.cmd = exec.Command(kr.bin, args...)
	kr.cmd.Stdout, kr.cmd.Stderr = nil, nil
	if err := kr.cmd.Start(); err != nil {
		return err
	}
	kr.baseURL = fmt.Sprintf("http://127.0.0.1:%d", kr.port)
	deadline := time.Now().Add(10 * time.Second)
	for time.Now().Before(deadline) {
		c, err := net.DialTimeout("tcp", fmt.Sprintf("127.0.0.1:%d", kr.port), 200*time.Millisecond)
		if err == nil {
			c.Close()
			return nil
		}
		time.Sleep(10 * time.Millisecond)
	}
	return fmt.Errorf("server did not come up on the existing storage (%s)", kr.kind)
}

func (kr *killRun) kill() {
	if kr.cmd != nil && kr.cmd.Process != nil {
		kr.cmd.Process.Signal(syscall.SIGKILL)
		kr.cmd.Wait()
	}
	kr.client.CloseIdleConnections()
}

// do issues one operation over TCP; returns false when the connection failed
// (the server died): then no response event is recorded.
func (kr *killRun) do(c string, op Op, body []byte) bool {
	inv := cEvent{T: "inv", C: c, Op: op, Seq: kr.next()}
	k := toBytes(op["k"])
	url := kr.baseURL + "/" + concBucket
	if k != "" {
		url += "/" + k
	}
	method := "GET"
	var rd *bytes.Reader
	switch op.S("op") {
	case "PutObject":
		method = "PUT"
		rd = bytes.NewReader(body)
	case "DeleteObject":
		method = "DELETE"
	case "ListObjects":
		url = kr.baseURL + "/" + concBucket
	}
	var req *http.Request
	if rd != nil {
		req, _ = http.NewRequest(method, url, rd)
		req.ContentLength = int64(len(body))
	} else {
		req, _ = http.NewRequest(method, url, nil)
	}
	resp, err := kr.client.Do(req)
	if err != nil {
		kr.record(inv)
		return false
	}
	out, rerr := ioutil.ReadAll(resp.Body)
	resp.Body.Close()
	if rerr != nil {
		kr.record(inv)
		return false
	}
	resSeq := kr.next()
	r := Op{"st": float64(resp.StatusCode), "code": ""}
	if resp.StatusCode >= 300 {
		var e xError
		if xml.Unmarshal(out, &e) == nil {
			r["code"] = e.Code
		}
	} else {
		switch op.S("op") {
		case "PutObject":
			r["etag"] = kr.atomOfETag(resp.Header.Get("ETag"))
			r["vid"] = ""
		case "GetObject":
			r["body"] = kr.atomOfBody(out)
			r["etag"] = kr.atomOfETag(resp.Header.Get("ETag"))
			r["vid"] = ""
		case "ListObjects":
			var lb xListBucket
			keys := []interface{}{}
			if xml.Unmarshal(out, &lb) == nil {
				for _, ct := range lb.Contents {
					keys = append(keys, map[string]interface{}{"k": keyBytes(ct.Key), "body": kr.atomOfETag(ct.ETag)})
				}
			}
			r["keys"] = keys
		}
	}
	kr.record(inv)
	kr.record(cEvent{T: "res", C: c, R: r, Seq: resSeq})
	return true
}

func killScenario(bin, kind string, seed int64, rounds int) ([]cEvent, string) {
	dir := newDir()
	defer os.RemoveAll(dir)
	cr := &concRun{atoms: map[string][]byte{}, md5s: map[string]string{}, multi: map[string][]interface{}{}, byMD5: map[string]string{}, bySHA: map[string]string{}, seed: seed}
	cr.sizes = []int{100, 5000, 70000, 300000}
	kr := &killRun{concRun: cr, bin: bin, kind: kind, dir: dir, client: &http.Client{Timeout: 20 * time.Second}}
	if err := kr.start(); err != nil {
		return nil, err.Error()
	}
	defer kr.kill()
	single := ""
	if kind == "directfs" {
		single = concBucket
	}
	cr.record(cEvent{T: "reset", Seq: cr.next(), Cfg: Op{"versioned": false, "paginate": false, "single": single},
		Buckets: []string{concBucket}, Versioning: "None", Sys: "bin-" + kind, Scenario: "kill -9"})
	keys := []string{"k1", "k2", "d/k3"}
	r := rand.New(rand.NewSource(seed))
	n := 0
	for round := 0; round < rounds; round++ {
		killAfter := 3 + r.Intn(25)
		var wg sync.WaitGroup
		var done int32
		var mu sync.Mutex
		count := 0
		for ci := 1; ci <= 2; ci++ {
			wg.Add(1)
			go func(ci int, rs int64) {
				defer wg.Done()
				rr := rand.New(rand.NewSource(rs))
				for {
					mu.Lock()
					if done != 0 {
						mu.Unlock()
						return
					}
					count++
					n++
					i := n
					mu.Unlock()
					k := keys[rr.Intn(len(keys))]
					kb := keyBytes(k)
					c := fmt.Sprintf("%d", ci)
					ok := true
					switch x := rr.Intn(10); {
					case x < 6:
						name := fmt.Sprintf("w%d_%d", ci, i)
						body := cr.atom(name, rr)
						ok = kr.do(c, Op{"op": "PutObject", "b": concBucket, "k": kb, "body": []interface{}{name}, "meta": []interface{}{}, "vid": ""}, body)
					case x < 8:
						ok = kr.do(c, Op{"op": "DeleteObject", "b": concBucket, "k": kb, "vid": ""}, nil)
					default:
						ok = kr.do(c, Op{"op": "GetObject", "b": concBucket, "k": kb}, nil)
					}
					if !ok {
						return
					}
				}
			}(ci, seed*1000+int64(round)*10+int64(ci))
		}
		// kill at a seeded instant: after killAfter operations have been started, plus a random fraction of a millisecond
		for {
			mu.Lock()
			cnt := count
			mu.Unlock()
			if cnt >= killAfter {
				break
			}
			time.Sleep(50 * time.Microsecond)
		}
		time.Sleep(time.Duration(r.Intn(800)) * time.Microsecond)
		kr.kill()
		mu.Lock()
		done = 1
		mu.Unlock()
		wg.Wait()
		cr.record(cEvent{T: "crash", Seq: cr.next()})
		if err := kr.start(); err != nil {
			return cr.sorted(), err.Error()
		}
		// read everything back
		if !kr.do("9", Op{"op": "ListObjects", "b": concBucket, "v2": false, "prefix": []interface{}{}, "delim": []interface{}{},
			"max": float64(0), "marker": []interface{}{}, "hasMarker": false}, nil) {
			return cr.sorted(), "listing after the restart failed at the connection level"
		}
		for _, k := range keys {
			if !kr.do("9", Op{"op": "GetObject", "b": concBucket, "k": keyBytes(k)}, nil) {
				return cr.sorted(), "read after the restart failed at the connection level"
			}
		}
	}
	return cr.sorted(), ""
}

func cmdKill(args []string) {
	fs := flag.NewFlagSet("kill", flag.ExitOnError)
	bin := fs.String("bin", "", "path of the built cmd/gofakes3 binary")
	kinds := fs.String("kinds", "bolt,fs,directfs", "backends")
	seed := fs.Int64("seed", 1, "seed")
	runs := fs.Int("runs", 5, "runs per backend")
	rounds := fs.Int("rounds", 4, "kill/restart rounds per run")
	trace := fs.String("trace", "", "NDJSON output")
	out := fs.String("out", "", "summary")
	fs.Parse(args)
	tf, err := os.Create(*trace)
	if err != nil {
		fmt.Fprintln(os.Stderr, err)
		os.Exit(2)
	}
	tw := bufio.NewWriter(tf)
	enc := json.NewEncoder(tw)
	nruns, nevents, kills := 0, 0, 0
	perSys := map[string]int{}
	var problems []string
	for _, kind := range strings.Split(*kinds, ",") {
		for i := 0; i < *runs; i++ {
			evs, prob := killScenario(*bin, kind, *seed*131+int64(i), *rounds)
			if prob != "" {
				problems = append(problems, "bin-"+kind+": "+prob)
			}
			if evs == nil {
				continue
			}
			nruns++
			perSys["bin-"+kind]++
			for _, e := range evs {
				e.Run = nruns
				if e.T == "crash" {
					kills++
				}
				enc.Encode(e)
				nevents++
			}
		}
	}
	tw.Flush()
	tf.Close()
	b, _ := json.MarshalIndent(map[string]interface{}{"runs": nruns, "events": nevents, "kills": kills, "per_system": perSys, "problems": problems}, "", " ")
	if *out != "" {
		os.WriteFile(*out, b, 0644)
	}
	fmt.Fprintf(os.Stderr, "kill: %d runs, %d kills, %d events, problems %v\n", nruns, kills, nevents, problems)
}

func init() { commands["kill"] = cmdKill }
