package main

import (
	"crypto/md5"
	"crypto/sha256"
	"encoding/binary"
	"encoding/hex"
	"fmt"
	"math/rand"
	"sort"
	"strings"
)

// Op is one abstract operation (or expected reply) as emitted by the
// specification: a JSON object.
type Op map[string]interface{}

func (o Op) Has(k string) bool { _, ok := o[k]; return ok }

func (o Op) S(k string) string {
	if v, ok := o[k].(string); ok {
		return v
	}
	return ""
}

func (o Op) I(k string) int {
	switch v := o[k].(type) {
	case float64:
		return int(v)
	case int:
		return v
	}
	return 0
}

func (o Op) B(k string) bool {
	v, _ := o[k].(bool)
	return v
}

func (o Op) Sub(k string) Op {
	switch v := o[k].(type) {
	case map[string]interface{}:
		return Op(v)
	case Op:
		return v
	}
	return nil
}

func (o Op) List(k string) []interface{} {
	v, _ := o[k].([]interface{})
	return v
}

// toBytes converts a JSON array of byte values into a string.
func toBytes(v interface{}) string {
	switch a := v.(type) {
	case []interface{}:
		b := make([]byte, len(a))
		for i, x := range a {
			switch n := x.(type) {
			case float64:
				b[i] = byte(n)
			case int:
				b[i] = byte(n)
			}
		}
		return string(b)
	case string:
		return a
	}
	return ""
}

func fromBytes(s string) []interface{} {
	out := make([]interface{}, len(s))
	for i := 0; i < len(s); i++ {
		out[i] = float64(s[i])
	}
	return out
}

func (o Op) Key(k string) string { return toBytes(o[k]) }

func toAtoms(v interface{}) []string {
	a, _ := v.([]interface{})
	out := make([]string, 0, len(a))
	for _, x := range a {
		if s, ok := x.(string); ok {
			out = append(out, s)
		}
	}
	return out
}

func (o Op) Atoms(k string) []string { return toAtoms(o[k]) }

// StrMap reads a JSON object of strings ([] stands for the empty function).
func (o Op) StrMap(k string) map[string]string {
	out := map[string]string{}
	if m, ok := o[k].(map[string]interface{}); ok {
		for kk, v := range m {
			if s, ok := v.(string); ok {
				out[kk] = s
			}
		}
	}
	return out
}

// ---------------------------------------------------------------------
// Concretization: abstract atoms -> bytes, abstract keys -> concrete keys.

var sizeClassesQuick = []int{1, 2, 7, 100, 1000, 4096, 32767, 32768, 32769, 65537}
var sizeClassesThorough = []int{1, 2, 7, 100, 1000, 4096, 32767, 32768, 32769, 65537, 1 << 20, 3<<20 + 17}

// sizes at and around which upload and download paths change their buffering
var sizeClassesLarge = []int{1<<20 - 1, 1 << 20, 1<<20 + 1, 2 << 20, 5<<20 + 3}

// Conc maps the abstract values of one tour to concrete ones.  It is
// deterministic in (seed, salt).
type Conc struct {
	seed    int64
	salt    int64
	sizes   []int
	atoms   map[string][]byte
	shift   uint64
	images  map[byte]string // key mode 3
	keyMode int             // 0 plain; 1 rich (UTF-8, characters needing URL escaping); 2 rich2 (base64-hostile bytes)
	small   bool
}

// saltShiftUnit: salts at or above it carry, in their high part, a rotation of the size classes (every atom then
// takes each class in turn over the rotations of one tour)
const saltShiftUnit = 1000000000

func NewConc(seed, salt int64, thorough bool) *Conc {
	c := &Conc{seed: seed, salt: salt % saltShiftUnit, shift: uint64(salt / saltShiftUnit), atoms: map[string][]byte{}}
	c.sizes = sizeClassesQuick
	if thorough {
		c.sizes = sizeClassesThorough
	}
	return c
}

func hash64(parts ...string) uint64 {
	h := sha256.New()
	for _, p := range parts {
		h.Write([]byte(p))
		h.Write([]byte{0})
	}
	return binary.LittleEndian.Uint64(h.Sum(nil)[:8])
}

// Atom returns the bytes of one body atom (never empty; the empty body is
// the empty atom list).
func (c *Conc) Atom(a string) []byte {
	if b, ok := c.atoms[a]; ok {
		return b
	}
	h := hash64(a, fmt.Sprint(c.seed), fmt.Sprint(c.salt))
	n := c.sizes[int((h+c.shift)%uint64(len(c.sizes)))]
	if c.small && n > 100 {
		n = int(h%97) + 1
	}
	if strings.HasPrefix(a, "sz:") { // an atom of an exact size
		fmt.Sscanf(a[3:], "%d", &n)
	}
	r := rand.New(rand.NewSource(int64(h)))
	b := make([]byte, n)
	r.Read(b)
	// make atoms distinguishable even at tiny sizes
	for {
		clash := false
		for o, ob := range c.atoms {
			if o != a && string(ob) == string(b) {
				clash = true
			}
		}
		if !clash {
			break
		}
		b = append(b, byte(r.Intn(256)))
	}
	c.atoms[a] = b
	return b
}

func (c *Conc) Body(atoms []string) []byte {
	var out []byte
	for _, a := range atoms {
		out = append(out, c.Atom(a)...)
	}
	if out == nil {
		out = []byte{}
	}
	return out
}

func md5hex(b []byte) string {
	s := md5.Sum(b)
	return hex.EncodeToString(s[:])
}

func sha256hex(b []byte) string {
	s := sha256.Sum256(b)
	return hex.EncodeToString(s[:])
}

// richMap is an order-preserving, prefix-free substitution of key bytes:
// distinct bytes map to strings that differ in their first byte in the same
// order, '/' stays '/', so byte order, prefixes and delimiter structure of
// the abstract keys are preserved while the concrete keys exercise UTF-8,
// blanks and characters that need URL escaping.
var richMap = map[byte]string{
	'-': "-%25", '/': "/", '0': "0 0", '1': "1+", '2': "2&", 'a': "a b", 'b': "b?#", 'c': "c=",
	'd': "dé", 'x': "x世", 'y': "y~'", 'z': "zü",
}

// richMap2 (key mode 2): the same kind of substitution, chosen so that the third byte of every image is '~', '?'
// or '>' -- bytes whose low six bits are 62 or 63, i.e. the two characters in which the URL-safe and the
// standard base64 alphabets differ -- so that tokens derived from keys contain them.
var richMap2 = map[byte]string{
	'-': "-->", '/': "/", '0': "00~", '1': "11?", '2': "22>", 'a': "aa~", 'b': "bb?", 'c': "cc>",
	'd': "dd~", 'x': "xx?", 'y': "yy>", 'z': "zz~",
}

// key mode 3 ("rich3"): every abstract byte is followed by one or two characters drawn, per tour, from a pool of
// unusual but legal key characters (punctuation that URLs, XML, file systems or base64 treat specially, DEL, a C1
// control, 2-, 3- and 4-byte UTF-8, a trailing blank).  The image starts with the abstract byte, so byte order,
// prefixes and the delimiter structure are kept.
var richPool = []string{"+", ";", "=", "&", " ", "%", "#", "?", "*", ":", "|", "~", "^", "`", "{", "}", "[", "]", "@", "$", "!", ",",
	"'", "\"", "<", ">", "\\", "\x7f", "é", "ł", "世", "😀", "\u0080", "\ufffd", "\u2028", "𐍈", "\U0010FFFF"}

func (c *Conc) image(b byte) string {
	if b == '/' {
		return "/"
	}
	h := hash64("img", fmt.Sprint(c.seed), fmt.Sprint(c.salt), string([]byte{b}))
	s := string([]byte{b}) + richPool[int(h%uint64(len(richPool)))]
	if (h>>20)%2 == 0 {
		s += richPool[int((h>>8)%uint64(len(richPool)))]
	}
	return s
}

func (c *Conc) keyMap() map[byte]string {
	switch c.keyMode {
	case 2:
		return richMap2
	case 3:
		if c.images == nil {
			c.images = map[byte]string{}
			for b := 0; b < 256; b++ {
				if b != '^' && b != '!' {
					c.images[byte(b)] = c.image(byte(b))
				}
			}
		}
		return c.images
	}
	return richMap
}

// padKey extends base with '/'-separated segments of 'p' to exactly total bytes.
func padKey(base string, total int) string {
	// (the first padding byte is '-', so that the padded key is a sibling of
	// base and not a path below it: fs backends cannot hold both "d/k" and "d/k/x")
	s := base + "-"
	for len(s) < total {
		remain := total - len(s)
		if remain == 1 {
			s += "p"
			break
		}
		seg := remain - 1
		if seg > 200 {
			seg = 200
		}
		s += "/" + strings.Repeat("p", seg)
	}
	return s
}

// Key maps an abstract key (bytes) to the concrete key.  A trailing '!' asks
// for a key of exactly 1024 bytes (the limit), '!!' for 1025 bytes.
// longShared is a 260-byte prefix: keys written "^x" share it and differ only after it.
var longShared = strings.Repeat("q", 260) // (no delimiter inside: the delimiter structure of the abstract key is kept; one path segment longer than NAME_MAX)

func (c *Conc) Key(k string) string {
	if strings.HasPrefix(k, "^") {
		return longShared + c.Key(k[1:])
	}
	if strings.HasSuffix(k, "!!") {
		return padKey(c.Key(strings.TrimSuffix(k, "!!")), 1025)
	}
	if strings.HasSuffix(k, "!") {
		return padKey(c.Key(strings.TrimSuffix(k, "!")), 1024)
	}
	if c.keyMode == 0 {
		return k
	}
	var sb strings.Builder
	for i := 0; i < len(k); i++ {
		if s, ok := c.keyMap()[k[i]]; ok {
			sb.WriteString(s)
		} else {
			sb.WriteByte(k[i])
		}
	}
	return sb.String()
}

// KeyPrefix concretizes a listing prefix.  In key mode 3 the image of the prefix's last byte is cut somewhere after
// its first byte (possibly inside a multi-byte character): every key that has that abstract byte there carries the
// whole image, so the cut prefix selects exactly the same keys -- and the byte that follows the prefix in those
// keys is then an unusual one (a 4-byte character's lead byte, a continuation byte, ...).
func (c *Conc) KeyPrefix(p string) string {
	full := c.Key(p)
	if c.keyMode != 3 || p == "" || strings.HasPrefix(p, "^") || strings.HasSuffix(p, "!") {
		return full
	}
	last := p[len(p)-1]
	img := c.keyMap()[last]
	if last == '/' || len(img) < 2 || !strings.HasSuffix(full, img) {
		return full
	}
	h := hash64("cut", fmt.Sprint(c.seed), fmt.Sprint(c.salt), p)
	cut := 1 + int(h%uint64(len(img))) // 1..len(img): keep at least the first byte
	return full[:len(full)-len(img)+cut]
}

// Unkey is the inverse of Key on keys produced by Key.
func (c *Conc) Unkey(k string) string {
	if strings.HasPrefix(k, longShared) {
		return "^" + c.Unkey(k[len(longShared):])
	}
	if len(k) == 1024 || len(k) == 1025 {
		if i := strings.Index(k, "-/pppppppp"); i >= 0 {
			return c.Unkey(k[:i]) + strings.Repeat("!", len(k)-1023)
		}
	}
	if c.keyMode == 0 {
		return k
	}
	// greedy: richMap images are prefix-free and keyed by first byte
	var sb strings.Builder
	for i := 0; i < len(k); {
		if s, ok := c.keyMap()[k[i]]; ok && strings.HasPrefix(k[i:], s) {
			sb.WriteByte(k[i])
			i += len(s)
		} else {
			sb.WriteByte(k[i])
			i++
		}
	}
	return sb.String()
}

// PartNum maps an abstract part number to a concrete one in 1..10000,
// order-preserving, with gaps, rotating per tour.
func (c *Conc) PartNum(n int) int {
	tables := [][]int{{0, 1, 2, 3, 4, 5, 6, 7, 8, 9}, {0, 1, 137, 138, 2000, 5000, 9000, 10000, 0, 0}, {0, 3, 4999, 5000, 5001, 9998, 9999, 10000, 0, 0}}
	t := tables[int(uint64(c.salt)%uint64(len(tables)))]
	if n >= 0 && n < len(t) && t[n] != 0 {
		return t[n]
	}
	return n
}

// header name / value for an abstract metadata entry
func metaHeader(name string) string {
	switch name {
	case "ct":
		return "Content-Type"
	case "ce":
		return "Content-Encoding"
	case "cd":
		return "Content-Disposition"
	}
	return "X-Amz-Meta-" + strings.ToUpper(name[:1]) + strings.ToLower(name[1:])
}

func (c *Conc) MetaValue(name, v string) string {
	if v == "" {
		return "" // a header sent with an empty value
	}
	// values that look like an encoding marker of some storage layer: they are data and come back as sent
	switch v {
	case "B64":
		return "base64:aGVsbG8gd29ybGQ="
	case "PCT":
		return "%41%2Fb+c%"
	case "MIME":
		return "=?UTF-8?B?aGk=?="
	case "JSON":
		return "{\"a\":[1,\"\\u00e9\"]}"
	}
	switch name {
	case "ct":
		return "application/x-" + strings.ToLower(v)
	case "ce":
		return "enc-" + strings.ToLower(v)
	case "cd":
		return "attachment; filename=\"" + v + ".bin\""
	}
	return "value " + v + " =;%"
}

func sortedKeys(m map[string]string) []string {
	out := make([]string, 0, len(m))
	for k := range m {
		out = append(out, k)
	}
	sort.Strings(out)
	return out
}
