package main

import (
	"bytes"
	"encoding/base64"
	"encoding/xml"
	"fmt"
	"hash/fnv"
	"io"
	"io/ioutil"
	"mime/multipart"
	"net/http"
	"net/http/httptest"
	"net/url"
	"runtime/debug"
	"strconv"
	"strings"
	"time"
)

// Observed is what one request produced.
type Observed struct {
	Method  string
	Status  int
	Header  http.Header
	Body    []byte
	Panic   string
	Timeout bool
	NoReq   bool // the operation cannot be expressed on this system/path
}

// XML result documents (the harness's own definitions: trusted base).
type xError struct {
	XMLName xml.Name `xml:"Error"`
	Code    string   `xml:"Code"`
	Message string   `xml:"Message"`
}
type xContent struct {
	Key  string `xml:"Key"`
	ETag string `xml:"ETag"`
	Size string `xml:"Size"`
}
type xPrefix struct {
	Prefix string `xml:"Prefix"`
}
type xListBucket struct {
	XMLName               xml.Name   `xml:"ListBucketResult"`
	Name                  string     `xml:"Name"`
	IsTruncated           bool       `xml:"IsTruncated"`
	Contents              []xContent `xml:"Contents"`
	CommonPrefixes        []xPrefix  `xml:"CommonPrefixes"`
	NextMarker            string     `xml:"NextMarker"`
	NextContinuationToken string     `xml:"NextContinuationToken"`
	Prefix                string     `xml:"Prefix"`
	Delimiter             string     `xml:"Delimiter"`
	KeyCount              string     `xml:"KeyCount"`
	MaxKeys               string     `xml:"MaxKeys"`
}
type xVersion struct {
	XMLName   xml.Name
	Key       string `xml:"Key"`
	VersionID string `xml:"VersionId"`
	IsLatest  bool   `xml:"IsLatest"`
	ETag      string `xml:"ETag"`
	Size      string `xml:"Size"`
}
type xListVersions struct {
	XMLName             xml.Name   `xml:"ListBucketVersionsResult"`
	IsTruncated         bool       `xml:"IsTruncated"`
	CommonPrefixes      []xPrefix  `xml:"CommonPrefixes"`
	NextKeyMarker       string     `xml:"NextKeyMarker"`
	NextVersionIDMarker string     `xml:"NextVersionIdMarker"`
	Entries             []xVersion `xml:",any"`
}
type xBuckets struct {
	XMLName xml.Name `xml:"ListAllMyBucketsResult"`
	Buckets []struct {
		Name string `xml:"Name"`
	} `xml:"Buckets>Bucket"`
}
type xDeleteResult struct {
	XMLName xml.Name `xml:"DeleteResult"`
	Deleted []struct {
		Key       string `xml:"Key"`
		VersionID string `xml:"VersionId"`
	} `xml:"Deleted"`
	Errors []struct {
		Key  string `xml:"Key"`
		Code string `xml:"Code"`
	} `xml:"Error"`
}
type xCopyResult struct {
	XMLName xml.Name `xml:"CopyObjectResult"`
	ETag    string   `xml:"ETag"`
}
type xInitiate struct {
	XMLName  xml.Name `xml:"InitiateMultipartUploadResult"`
	Bucket   string   `xml:"Bucket"`
	Key      string   `xml:"Key"`
	UploadID string   `xml:"UploadId"`
}
type xComplete struct {
	XMLName  xml.Name `xml:"CompleteMultipartUploadResult"`
	Location string   `xml:"Location"`
	Bucket   string   `xml:"Bucket"`
	Key      string   `xml:"Key"`
	ETag     string   `xml:"ETag"`
}
type xPart struct {
	PartNumber int    `xml:"PartNumber"`
	ETag       string `xml:"ETag"`
	Size       string `xml:"Size"`
}
type xListParts struct {
	XMLName              xml.Name `xml:"ListPartsResult"`
	IsTruncated          bool     `xml:"IsTruncated"`
	NextPartNumberMarker int      `xml:"NextPartNumberMarker"`
	Parts                []xPart  `xml:"Part"`
}
type xUpload struct {
	Key      string `xml:"Key"`
	UploadID string `xml:"UploadId"`
}
type xListUploads struct {
	XMLName            xml.Name  `xml:"ListMultipartUploadsResult"`
	IsTruncated        bool      `xml:"IsTruncated"`
	NextKeyMarker      string    `xml:"NextKeyMarker"`
	NextUploadIDMarker string    `xml:"NextUploadIdMarker"`
	Uploads            []xUpload `xml:"Upload"`
	CommonPrefixes     []xPrefix `xml:"CommonPrefixes"`
}
type xVersioning struct {
	XMLName xml.Name `xml:"VersioningConfiguration"`
	Status  string   `xml:"Status"`
}

// ErrCode extracts the S3 error code of an error response ("" if the body is
// not an S3 error document).
func (o *Observed) ErrCode() string {
	var e xError
	if err := xml.Unmarshal(o.Body, &e); err != nil {
		return ""
	}
	return e.Code
}

// Exec drives one system along one history.
type Exec struct {
	Sys      *System
	Conc     *Conc
	Vids     map[string]string // symbolic -> server version id
	Uids     map[string]string // symbolic -> server upload id
	VerMeta  map[string]string // server version id -> metadata and entity headers it was served with right after its upload
	Host     string            // Host header to use ("" = default)
	Addr     func(r *Req)      // addressing-mode rewrite applied to every request (C16)
	RawPath  bool              // also set URL.RawPath, as net/http does for a request line whose escaping is not Go's canonical one
	ObjQuery string            // appended to object-level requests that have no query of their own (C16)
	Api      bool              // call the Backend methods directly instead of the HTTP front end (api.go)
	Sync     bool              // run the handler on the calling goroutine, let panics propagate
	Timeout  time.Duration
}

func NewExec(sys *System, conc *Conc) *Exec {
	return &Exec{Sys: sys, Conc: conc, Vids: map[string]string{}, Uids: map[string]string{}, Timeout: 10 * time.Second}
}

// Req is a concrete HTTP request description.
type Req struct {
	Method string
	Path   string // unescaped path
	Query  url.Values
	RawQ   string // overrides Query when set
	Header http.Header
	Body   io.Reader
	CLen   int64 // ContentLength field of the request (-1 unknown)
	Host   string
	Skip   bool // the operation cannot be expressed in this addressing mode
}

func newReq(method, path string) *Req {
	return &Req{Method: method, Path: path, Query: url.Values{}, Header: http.Header{}, CLen: 0}
}

func (r *Req) setBody(b []byte) {
	r.Body = bytes.NewReader(b)
	r.CLen = int64(len(b))
	r.Header.Set("Content-Length", strconv.Itoa(len(b)))
}

// Serve runs one request through the handler in process, recovering panics
// and enforcing a deadline.
func (x *Exec) Serve(r *Req) *Observed {
	u := &url.URL{Path: r.Path, RawQuery: r.Query.Encode()}
	if r.RawQ != "" {
		u.RawQuery = r.RawQ
	}
	if x.RawPath {
		u.RawPath = wireEscape(r.Path)
	}
	body := r.Body
	if body == nil {
		body = http.NoBody
	}
	host := r.Host
	if host == "" {
		host = x.Host
	}
	if host == "" {
		host = "s3.test"
	}
	hr := &http.Request{
		Method: r.Method, URL: u, Proto: "HTTP/1.1", ProtoMajor: 1, ProtoMinor: 1,
		Header: r.Header, Body: ioutil.NopCloser(body), ContentLength: r.CLen, Host: host,
		RequestURI: u.RequestURI(), RemoteAddr: "127.0.0.1:1",
	}
	rec := httptest.NewRecorder()
	obs := &Observed{Method: r.Method}
	if x.Sync {
		x.Sys.Handler.ServeHTTP(rec, hr)
		res := rec.Result()
		obs.Status = res.StatusCode
		obs.Header = res.Header
		obs.Body, _ = ioutil.ReadAll(res.Body)
		return obs
	}
	done := make(chan struct{})
	go func() {
		defer close(done)
		defer func() {
			if p := recover(); p != nil {
				obs.Panic = fmt.Sprintf("%v\n%s", p, debug.Stack())
			}
		}()
		x.Sys.Handler.ServeHTTP(rec, hr)
	}()
	select {
	case <-done:
	case <-time.After(x.Timeout):
		obs.Timeout = true
		return obs
	}
	res := rec.Result()
	obs.Status = res.StatusCode
	obs.Header = res.Header
	obs.Body, _ = ioutil.ReadAll(res.Body)
	return obs
}

func (x *Exec) objPath(b, k string) string { return "/" + b + "/" + k }

func (x *Exec) realVid(sym string) string {
	if v, ok := x.Vids[sym]; ok {
		return v
	}
	return "3/L4kqtJlcpXroDTDmJ+rmSpXd3dIbrHY+MTRCxf3vjVBH40Nr8X8gdRQBpUMLUo" // never issued
}

func (x *Exec) realUid(sym string) string {
	if v, ok := x.Uids[sym]; ok {
		return v
	}
	return "9999999"
}

func (x *Exec) setMeta(r *Req, meta map[string]string) {
	for _, name := range sortedKeys(meta) {
		r.Header.Set(metaHeader(name), x.Conc.MetaValue(name, meta[name]))
	}
}

// Build translates an abstract operation into a request.
func (x *Exec) Build(op Op) *Req {
	b := toBytes(op["b"]) // bucket names are strings, or byte sequences (C17)
	k := x.Conc.Key(op.Key("k"))
	switch op.S("op") {
	case "CreateBucket":
		return newReq("PUT", "/"+b)
	case "HeadBucket":
		return newReq("HEAD", "/"+b)
	case "DeleteBucket":
		r := newReq("DELETE", "/"+b)
		if op.B("force") {
			r.Header.Set("x-minio-force-delete", "true")
		}
		return r
	case "ListBuckets":
		return newReq("GET", "/")
	case "GetLocation":
		r := newReq("GET", "/"+b)
		r.RawQ = "location"
		return r
	case "PutObject":
		r := newReq("PUT", x.objPath(b, k))
		body := x.Conc.Body(op.Atoms("body"))
		r.setBody(body)
		x.setMeta(r, op.StrMap("meta"))
		if op.S("md5") == "good" {
			r.Header.Set("Content-MD5", md5b64(body))
		}
		return r
	case "PostObject":
		var buf bytes.Buffer
		mw := multipart.NewWriter(&buf)
		mw.WriteField("key", k)
		for name, v := range op.StrMap("meta") {
			mw.WriteField(metaHeader(name), x.Conc.MetaValue(name, v))
		}
		fw, _ := mw.CreateFormFile("file", "upload.bin")
		fw.Write(x.Conc.Body(op.Atoms("body")))
		mw.Close()
		r := newReq("POST", "/"+b)
		r.setBody(buf.Bytes())
		r.Header.Set("Content-Type", mw.FormDataContentType())
		return r
	case "GetObject":
		r := newReq("GET", x.objPath(b, k))
		if op.Has("range") {
			r.Header.Set("Range", op.S("range"))
		}
		if op.Has("inm") {
			r.Header.Set("If-None-Match", quoteETag(x.Conc.Body(op.Atoms("inm"))))
		}
		setIMS(r, op)
		return r
	case "HeadObject":
		r := newReq("HEAD", x.objPath(b, k))
		if op.Has("inm") {
			r.Header.Set("If-None-Match", quoteETag(x.Conc.Body(op.Atoms("inm"))))
		}
		setIMS(r, op)
		return r
	case "DeleteObject":
		return newReq("DELETE", x.objPath(b, k))
	case "DeleteMulti":
		var sb strings.Builder
		sb.WriteString("<Delete>")
		if op.B("quiet") {
			sb.WriteString("<Quiet>true</Quiet>")
		}
		for _, o := range op.List("objs") {
			oo := Op(o.(map[string]interface{}))
			sb.WriteString("<Object><Key>")
			xml.EscapeText(&sb, []byte(x.Conc.Key(oo.Key("k"))))
			sb.WriteString("</Key>")
			if v := oo.S("vid"); v != "" {
				sb.WriteString("<VersionId>")
				xml.EscapeText(&sb, []byte(x.realVid(v)))
				sb.WriteString("</VersionId>")
			}
			sb.WriteString("</Object>")
		}
		sb.WriteString("</Delete>")
		r := newReq("POST", "/"+b)
		r.RawQ = "delete"
		r.setBody([]byte(sb.String()))
		return r
	case "CopyObject":
		r := newReq("PUT", x.objPath(b, k))
		src := "/" + op.S("sb") + "/" + url.QueryEscape(x.Conc.Key(op.Key("sk")))
		r.Header.Set("X-Amz-Copy-Source", src)
		r.Header.Set("Content-Length", "0")
		x.setMeta(r, op.StrMap("meta"))
		// x-amz-metadata-directive: the code gives it no meaning (S3!CopyObject always merges), so a request may
		// carry any spelling of it; which one is a stateless function of the request and the tour's seed, so that re-runs agree
		h := fnv.New32a()
		h.Write([]byte(src + "|" + r.Path + "|" + strconv.Itoa(len(r.Header)) + "|" + strconv.FormatInt(x.Conc.seed+x.Conc.salt, 10)))
		switch h.Sum32() % 3 {
		case 1:
			r.Header.Set("X-Amz-Metadata-Directive", "COPY")
		case 2:
			r.Header.Set("X-Amz-Metadata-Directive", "REPLACE")
		}
		return r
	case "GetVersioning":
		r := newReq("GET", "/"+b)
		r.RawQ = "versioning"
		return r
	case "PutVersioning":
		r := newReq("PUT", "/"+b)
		r.RawQ = "versioning"
		r.setBody([]byte(`<VersioningConfiguration xmlns="http://s3.amazonaws.com/doc/2006-03-01/"><Status>` + op.S("status") + `</Status></VersioningConfiguration>`))
		return r
	case "GetObjectVersion":
		r := newReq("GET", x.objPath(b, k))
		r.Query.Set("versionId", x.realVid(op.S("vid")))
		if op.Has("range") {
			r.Header.Set("Range", op.S("range"))
		}
		return r
	case "HeadObjectVersion":
		r := newReq("HEAD", x.objPath(b, k))
		r.Query.Set("versionId", x.realVid(op.S("vid")))
		return r
	case "DeleteObjectVersion":
		r := newReq("DELETE", x.objPath(b, k))
		r.Query.Set("versionId", x.realVid(op.S("vid")))
		return r
	case "ListObjects":
		r := newReq("GET", "/"+b)
		if op.B("v2") {
			r.Query.Set("list-type", "2")
		}
		if p := x.Conc.KeyPrefix(op.Key("prefix")); p != "" {
			r.Query.Set("prefix", p)
		}
		if d := op.Key("delim"); d != "" {
			r.Query.Set("delimiter", d)
		}
		if m := op.I("max"); m > 0 {
			r.Query.Set("max-keys", strconv.Itoa(m))
		}
		if op.B("hasMarker") {
			m := x.Conc.Key(op.Key("marker"))
			switch {
			case !op.B("v2"):
				r.Query.Set("marker", m)
			case op.S("markerKind") == "token":
				r.Query.Set("continuation-token", base64.URLEncoding.EncodeToString([]byte(m)))
			default:
				r.Query.Set("start-after", m)
			}
		}
		if op.Has("token") { // raw server-issued continuation token
			r.Query.Set("continuation-token", op.S("token"))
		}
		return r
	case "ListVersions":
		r := newReq("GET", "/"+b)
		r.Query.Set("versions", "")
		if p := x.Conc.KeyPrefix(op.Key("prefix")); p != "" {
			r.Query.Set("prefix", p)
		}
		if d := op.Key("delim"); d != "" {
			r.Query.Set("delimiter", d)
		}
		if m := op.I("max"); m > 0 {
			r.Query.Set("max-keys", strconv.Itoa(m))
		}
		if op.Has("keyMarker") {
			r.Query.Set("key-marker", op.S("keyMarker"))
		}
		if op.Has("vidMarker") {
			r.Query.Set("version-id-marker", op.S("vidMarker"))
		}
		return r
	case "Initiate":
		r := newReq("POST", x.objPath(b, k))
		r.Query.Set("uploads", "")
		x.setMeta(r, op.StrMap("meta"))
		return r
	case "UploadPart":
		r := newReq("PUT", x.objPath(b, k))
		r.Query.Set("uploadId", x.realUid(op.S("uid")))
		r.Query.Set("partNumber", strconv.Itoa(x.Conc.PartNum(op.I("n"))))
		body := x.Conc.Body(op.Atoms("body"))
		r.setBody(body)
		if op.S("md5") == "good" {
			r.Header.Set("Content-MD5", md5b64(body))
		}
		return r
	case "Complete":
		var sb strings.Builder
		sb.WriteString("<CompleteMultipartUpload>")
		for _, p := range op.List("list") {
			pp := Op(p.(map[string]interface{}))
			fmt.Fprintf(&sb, "<Part><PartNumber>%d</PartNumber><ETag>&quot;%s&quot;</ETag></Part>",
				x.Conc.PartNum(pp.I("n")), md5hex(x.Conc.Body(pp.Atoms("body"))))
		}
		sb.WriteString("</CompleteMultipartUpload>")
		r := newReq("POST", x.objPath(b, k))
		r.Query.Set("uploadId", x.realUid(op.S("uid")))
		r.setBody([]byte(sb.String()))
		return r
	case "Upload":
		return x.buildUpload(op)
	case "Abort":
		r := newReq("DELETE", x.objPath(b, k))
		r.Query.Set("uploadId", x.realUid(op.S("uid")))
		return r
	case "ListParts":
		r := newReq("GET", x.objPath(b, k))
		r.Query.Set("uploadId", x.realUid(op.S("uid")))
		if m := op.I("max"); m > 0 {
			r.Query.Set("max-parts", strconv.Itoa(m))
		}
		if m := op.I("marker"); m > 0 || op.B("hasMarker") {
			r.Query.Set("part-number-marker", strconv.Itoa(m))
		}
		return r
	case "ListUploads":
		r := newReq("GET", "/"+b)
		r.Query.Set("uploads", "")
		if p := x.Conc.KeyPrefix(op.Key("prefix")); p != "" {
			r.Query.Set("prefix", p)
		}
		if d := op.Key("delim"); d != "" {
			r.Query.Set("delimiter", d)
		}
		if m := op.I("max"); m > 0 {
			r.Query.Set("max-uploads", strconv.Itoa(m))
		}
		if op.Has("keyMarker") {
			r.Query.Set("key-marker", op.S("keyMarker"))
		}
		if op.Has("uidMarker") {
			r.Query.Set("upload-id-marker", op.S("uidMarker"))
		}
		return r
	}
	return nil
}

func md5b64(b []byte) string {
	s := md5sum(b)
	return base64.StdEncoding.EncodeToString(s)
}

// Do executes one abstract operation over HTTP.
func (x *Exec) Do(op Op) *Observed {
	if x.Api {
		if o := x.apiDo(op); o != nil {
			return o
		}
		return &Observed{NoReq: true}
	}
	r := x.Build(op)
	if r == nil {
		return &Observed{NoReq: true}
	}
	// C16: a query parameter that only means something on a bucket (?location) rides along on every object-level
	// request: it must change nothing, however the request is addressed
	if x.ObjQuery != "" && !op.Has("path") && r.RawQ == "" && len(r.Query) == 0 && strings.Count(strings.Trim(r.Path, "/"), "/") >= 1 {
		r.RawQ = x.ObjQuery
	}
	// C16: the operation is addressed by a raw Host header and URL path
	if op.Has("path") {
		r.Path = op.S("path")
		r.Host = op.S("host")
	} else if x.Addr != nil {
		x.Addr(r)
		if r.Skip {
			return &Observed{NoReq: true}
		}
	}
	return x.Serve(r)
}

// hostStyle rewrites a path-style request into virtual-host style for base.
func hostStyle(base string) func(r *Req) {
	// several bases (comma separated): consecutive requests go through them in turn
	if bases := strings.Split(base, ","); len(bases) > 1 {
		var styles []func(r *Req)
		for _, b := range bases {
			styles = append(styles, hostStyle(b))
		}
		n := 0
		return func(r *Req) {
			styles[n%len(styles)](r)
			n++
		}
	}
	return func(r *Req) {
		p := strings.TrimPrefix(r.Path, "/")
		if p == "" {
			// no bucket (ListBuckets): with a list of bases the base host itself
			// falls back to path-style; plain host-bucket mode cannot express it
			r.Host = base
			r.Skip = strings.HasPrefix(base, "!")
			r.Host = strings.TrimPrefix(base, "!")
			return
		}
		base := strings.TrimPrefix(base, "!")
		i := strings.IndexByte(p, '/')
		bucket, rest := p, ""
		if i >= 0 {
			bucket, rest = p[:i], p[i:]
		}
		if strings.ContainsAny(bucket, ".") || bucket == "" {
			return // not expressible as a single label: stay path-style
		}
		r.Host = bucket + "." + base
		if rest == "" {
			rest = "/"
		}
		r.Path = rest
	}
}

// extraSlashes adds insignificant slashes before the bucket and at the end.
func extraSlashes(r *Req) {
	if r.Path != "/" {
		r.Path = "//" + strings.TrimPrefix(r.Path, "/") + "/"
	}
}

type failingReader struct {
	data []byte
	pos  int
}

func (f *failingReader) Read(p []byte) (int, error) {
	if f.pos >= len(f.data) {
		return 0, io.ErrUnexpectedEOF // (what net/http's body reader reports when the connection is cut)
	}
	n := copy(p, f.data[f.pos:])
	f.pos += n
	return n, nil
}

// awsChunked encodes payload in the STREAMING-AWS4-HMAC-SHA256-PAYLOAD framing.
func awsChunked(payload []byte, sizes []int, final bool) []byte {
	var buf bytes.Buffer
	sig := strings.Repeat("a", 64)
	pos := 0
	for _, n := range sizes {
		if pos+n > len(payload) {
			n = len(payload) - pos
		}
		fmt.Fprintf(&buf, "%x;chunk-signature=%s\r\n", n, sig)
		buf.Write(payload[pos : pos+n])
		buf.WriteString("\r\n")
		pos += n
	}
	if pos < len(payload) {
		n := len(payload) - pos
		fmt.Fprintf(&buf, "%x;chunk-signature=%s\r\n", n, sig)
		buf.Write(payload[pos:])
		buf.WriteString("\r\n")
	}
	if final {
		fmt.Fprintf(&buf, "0;chunk-signature=%s\r\n\r\n", sig)
	}
	return buf.Bytes()
}

// buildUpload builds one classified upload attempt (C08).
func (x *Exec) buildUpload(op Op) *Req {
	body := x.Conc.Body(op.Atoms("body"))
	akey := op.Key("k")
	switch op.S("keyClass") {
	case "max":
		akey += "!"
	case "over":
		akey += "!!"
	}
	key := x.Conc.Key(akey)
	b := toBytes(op["b"])
	target := op.S("target")
	limit := x.Sys.Opts.MetaLimit
	if limit <= 0 {
		limit = 2000
	}
	pad := strings.Repeat("m", 2*limit)

	if target == "post" {
		var buf bytes.Buffer
		mw := multipart.NewWriter(&buf)
		mw.WriteField("key", key)
		for name, v := range op.StrMap("meta") {
			mw.WriteField(metaHeader(name), x.Conc.MetaValue(name, v))
		}
		if op.S("metaClass") == "over" {
			mw.WriteField("X-Amz-Meta-Pad", pad)
		}
		fw, _ := mw.CreateFormFile("file", "upload.bin")
		fw.Write(body)
		mw.Close()
		r := newReq("POST", "/"+b)
		r.setBody(buf.Bytes())
		r.Header.Set("Content-Type", mw.FormDataContentType())
		return r
	}

	r := newReq("PUT", x.objPath(b, key))
	if target == "part" {
		r.Query.Set("uploadId", x.realUid(op.S("uid")))
		r.Query.Set("partNumber", strconv.Itoa(x.Conc.PartNum(op.I("n"))))
	} else {
		x.setMeta(r, op.StrMap("meta"))
		if op.S("metaClass") == "over" {
			r.Header.Set("X-Amz-Meta-Pad", pad)
		}
	}
	switch op.S("digest") {
	case "good":
		r.Header.Set("Content-MD5", md5b64(body))
	case "wrong":
		r.Header.Set("Content-MD5", md5b64(append(append([]byte{}, body...), 'x')))
	case "zero":
		r.Header.Set("Content-MD5", base64.StdEncoding.EncodeToString(make([]byte, 16)))
	case "ones":
		r.Header.Set("Content-MD5", base64.StdEncoding.EncodeToString(bytes.Repeat([]byte{0xff}, 16)))
	case "flip":
		sum := md5sum(body)
		sum[15] ^= 1
		r.Header.Set("Content-MD5", base64.StdEncoding.EncodeToString(sum))
	case "malformed":
		r.Header.Set("Content-MD5", "%%%not-base64%%%")
	case "short":
		r.Header.Set("Content-MD5", "MTIzNDU=")
	case "empty":
		r.Header["Content-Md5"] = []string{""}
	}
	// what is actually sent
	sent := body
	switch op.S("length") {
	case "shorter":
		sent = body[:len(body)/2]
	case "longer":
		sent = append(append([]byte{}, body...), []byte("EXTRA-BYTES")...)
	}
	declared := len(body)
	wire := sent
	if target == "chunked" {
		sizes := []int{len(sent)/3 + 1, len(sent) / 2}
		wire = awsChunked(sent, sizes, true)
		r.Header.Set("X-Amz-Content-Sha256", "STREAMING-AWS4-HMAC-SHA256-PAYLOAD")
		r.Header.Set("X-Amz-Decoded-Content-Length", strconv.Itoa(declared))
		r.Header.Set("Content-Encoding", "aws-chunked")
		declared = len(wire)
		if op.S("length") != "exact" {
			// the transport length is right; only the decoded length lies
		}
	}
	r.Body = bytes.NewReader(wire)
	r.CLen = int64(declared)
	r.Header.Set("Content-Length", strconv.Itoa(declared))
	switch op.S("length") {
	case "missing":
		r.Header.Del("Content-Length")
		r.CLen = -1
	case "negative":
		r.Header.Set("Content-Length", "-5")
		r.CLen = -1
	case "nonnumeric":
		r.Header.Set("Content-Length", "abc")
		r.CLen = -1
	}
	if f := op.I("failAt"); op.Has("failAt") && f >= 0 {
		k := map[int]int{0: 0, 1: 1, 2: len(wire) / 2, 3: len(wire) - 1, 4: len(wire)}[f]
		if f == 4 && target == "chunked" {
			// every payload byte delivered, the terminating chunk never arrives
			k = len(awsChunked(sent, []int{len(sent)/3 + 1, len(sent) / 2}, false))
		}
		if k > len(wire) {
			k = len(wire)
		}
		r.Body = &failingReader{data: wire[:k]}
	}
	return r
}

// setIMS: If-Modified-Since before ("past") or after ("future") every write of the run.
func setIMS(r *Req, op Op) {
	switch op.S("ims") {
	case "past":
		r.Header.Set("If-Modified-Since", "Thu, 01 Jan 1970 00:00:01 GMT")
	case "future":
		r.Header.Set("If-Modified-Since", "Fri, 01 Jan 2100 00:00:00 GMT")
	}
}

// wireEscape writes a path the way many clients put it on the wire: unreserved characters, '/' and '+' literally,
// everything else percent-encoded (so '=' and ':' are escaped although Go's canonical form leaves them alone;
// net/http then records the original spelling in URL.RawPath).
func wireEscape(p string) string {
	var sb strings.Builder
	for i := 0; i < len(p); i++ {
		c := p[i]
		switch {
		case c >= 'a' && c <= 'z', c >= 'A' && c <= 'Z', c >= '0' && c <= '9', c == '-', c == '.', c == '_', c == '~', c == '/', c == '+':
			sb.WriteByte(c)
		default:
			fmt.Fprintf(&sb, "%%%02X", c)
		}
	}
	return sb.String()
}
