package main

import (
	"bufio"
	"encoding/json"
	"encoding/xml"
	"flag"
	"fmt"
	"io"
	"os"
	"strconv"
	"strings"
	"sync"
)

// Walk recording (direction B for C04, C13, C14): the harness puts a store in
// the state a TLC-emitted tour ends in, then pages through a listing following
// whatever continuation the server hands back, and logs every page.  TLC
// (TraceWalk.tla) decides whether the recorded walk is a correct traversal.

type wEntry struct {
	K   []interface{} `json:"k"`
	ID  string        `json:"id"`
	A   string        `json:"a"`
	Ord int           `json:"ord"`
}

type wEvent struct {
	T        string          `json:"t"`
	Kind     string          `json:"kind,omitempty"`
	Exact    bool            `json:"exact"`
	Pag      bool            `json:"pag"`
	Max      int             `json:"max"`
	Prefix   []interface{}   `json:"prefix"`
	Delim    []interface{}   `json:"delim"`
	Live     []wEntry        `json:"live"`
	Ents     []wEntry        `json:"ents"`
	Prefixes [][]interface{} `json:"prefixes"`
	Trunc    bool            `json:"trunc"`
	// bookkeeping, ignored by the specification
	Tour  int    `json:"tour,omitempty"`
	Sys   string `json:"sys,omitempty"`
	Style string `json:"style,omitempty"`
	Note  string `json:"note,omitempty"`
}

func emptyIfNil(a []interface{}) []interface{} {
	if a == nil {
		return []interface{}{}
	}
	return a
}

type walkTour struct {
	H      []Step `json:"h"`
	A      []Step `json:"a"`
	Fin    Op     `json:"fin"`
	NSetup int    `json:"nsetup"`
}

func parseWalkTour(line string) *walkTour {
	line = strings.TrimSpace(line)
	if strings.HasPrefix(line, `"{`) {
		var s string
		if err := json.Unmarshal([]byte(line), &s); err != nil {
			return nil
		}
		line = s
	}
	if !strings.HasPrefix(line, "{") {
		return nil
	}
	var t walkTour
	if err := json.Unmarshal([]byte(line), &t); err != nil {
		fmt.Fprintln(os.Stderr, "bad tour:", err)
		os.Exit(2)
	}
	return &t
}

type walker struct {
	x     *Exec
	out   []wEvent
	tour  int
	notes []string
	// scale walks (scale.go): the page size is left to the server's default (the request carries no
	// max-* parameter, the walk is judged against `max` = that default), and the store content is what
	// the harness itself wrote
	omitMax      bool
	liveOverride []wEntry
}

func (w *walker) reqMax(max int) int {
	if w.omitMax {
		return 0
	}
	return max
}

func (w *walker) emit(e wEvent) {
	e.Prefix = emptyIfNil(e.Prefix)
	e.Delim = emptyIfNil(e.Delim)
	if e.Live == nil {
		e.Live = []wEntry{}
	}
	if e.Ents == nil {
		e.Ents = []wEntry{}
	}
	if e.Prefixes == nil {
		e.Prefixes = [][]interface{}{}
	}
	e.Tour = w.tour
	e.Sys = w.x.Sys.Name
	w.out = append(w.out, e)
}

// liveObjects derives the listing entries from the specification's snapshot.
func (w *walker) liveObjects(fin Op, bucket string) []wEntry {
	var out []wEntry
	for _, b := range fin.List("buckets") {
		bo := Op(b.(map[string]interface{}))
		if bo.S("b") != bucket {
			continue
		}
		for _, o := range bo.List("objs") {
			oo := Op(o.(map[string]interface{}))
			vs := oo.List("vs")
			if len(vs) == 0 {
				continue
			}
			cur := Op(vs[len(vs)-1].(map[string]interface{}))
			if cur.S("kind") != "obj" {
				continue
			}
			body := w.x.Conc.Body(cur.Atoms("body"))
			out = append(out, wEntry{K: fromBytes(oo.Key("k")), ID: "", A: fmt.Sprintf("%d/%s", len(body), quoteETag(body))})
		}
	}
	return out
}

const maxPages = 200

// walkObjects pages through ListObjects (V1 or V2) for one prefix/delimiter/max.
func (w *walker) walkObjects(bucket string, live []wEntry, prefix, delim string, max int, v2 bool) {
	w.walkObjectsSA(bucket, live, prefix, delim, max, v2, false)
}

// walkObjectsSA: with carrySA, every V2 request carries start-after= (empty: from the beginning) in
// addition to the continuation token, as SDK paginators re-send their original parameters.
func (w *walker) walkObjectsSA(bucket string, live []wEntry, prefix, delim string, max int, v2 bool, carrySA bool) {
	w.walkObjectsFrom(bucket, live, prefix, delim, max, v2, carrySA, "")
}

// walkObjectsFrom: sa != "" -- the walk starts after that key (start-after=<sa>), the parameter is re-sent with every
// continuation token (which must win), and the expected entries are the live ones after sa.
func (w *walker) walkObjectsFrom(bucket string, live []wEntry, prefix, delim string, max int, v2 bool, carrySA bool, sa string) {
	if sa != "" {
		var rest []wEntry
		for _, e := range live {
			if toBytes(e.K) > sa {
				rest = append(rest, e)
			}
		}
		live = rest
	}
	style := "v1"
	if v2 {
		style = "v2"
	}
	if carrySA {
		style = "v2+start-after"
	}
	w.emit(wEvent{T: "start", Kind: "objects", Exact: true, Pag: w.x.Sys.Paginates(), Max: max,
		Prefix: fromBytes(prefix), Delim: fromBytes(delim), Live: live, Style: style})
	marker, token := "", ""
	hasMarker := false
	for page := 0; page < maxPages; page++ {
		op := Op{"op": "ListObjects", "b": bucket, "v2": v2, "prefix": fromBytes(prefix), "delim": fromBytes(delim), "max": float64(w.reqMax(max))}
		r := w.x.Build(op)
		if carrySA {
			r.Query.Set("start-after", "")
			if sa != "" {
				r.Query.Set("start-after", w.x.Conc.Key(sa))
			}
		}
		if hasMarker {
			if v2 {
				r.Query.Set("continuation-token", token)
			} else {
				r.Query.Set("marker", marker)
			}
		}
		obs := w.x.Serve(r)
		if obs.Status != 200 {
			w.emit(wEvent{T: "page", Note: fmt.Sprintf("status %d %s panic=%v", obs.Status, obs.ErrCode(), obs.Panic != ""), Trunc: true,
				Ents: []wEntry{{K: []interface{}{}, ID: "!error", A: fmt.Sprint(obs.Status)}}})
			break
		}
		var lb xListBucket
		if err := xml.Unmarshal(obs.Body, &lb); err != nil {
			w.emit(wEvent{T: "page", Note: "bad xml", Trunc: true, Ents: []wEntry{{K: []interface{}{}, ID: "!error", A: "xml"}}})
			break
		}
		ev := wEvent{T: "page", Trunc: lb.IsTruncated}
		for _, c := range lb.Contents {
			ev.Ents = append(ev.Ents, wEntry{K: fromBytes(w.x.Conc.Unkey(c.Key)), ID: "", A: c.Size + "/" + c.ETag})
		}
		for _, p := range lb.CommonPrefixes {
			ev.Prefixes = append(ev.Prefixes, fromBytes(w.x.Conc.Unkey(p.Prefix)))
		}
		w.emit(ev)
		if !lb.IsTruncated {
			break
		}
		// follow the continuation the server handed back
		hasMarker = true
		if v2 {
			token = lb.NextContinuationToken
			if token == "" {
				w.notes = append(w.notes, "truncated V2 page without NextContinuationToken")
				break
			}
		} else {
			switch {
			case lb.NextMarker != "":
				marker = lb.NextMarker
			case len(lb.Contents) > 0:
				marker = lb.Contents[len(lb.Contents)-1].Key
			default:
				w.notes = append(w.notes, "truncated V1 page without NextMarker or keys")
				hasMarker = false
			}
			if !hasMarker {
				break
			}
		}
	}
	w.emit(wEvent{T: "end"})
}

// walkVersions pages through ListObjectVersions.  `live` is the unpaginated
// listing (checked against the specification by the tour's audit step).
func (w *walker) walkVersions(bucket string, prefix, delim string, max int) bool {
	list := func(km, vm string, has bool, max int) (*xListVersions, *Observed) {
		op := Op{"op": "ListVersions", "b": bucket, "prefix": fromBytes(prefix), "delim": fromBytes(delim), "max": float64(max)}
		if has {
			op["keyMarker"] = km
			if vm != "" {
				op["vidMarker"] = vm
			}
		}
		obs := w.x.Do(op)
		if obs.Status != 200 {
			return nil, obs
		}
		var lv xListVersions
		if err := xml.Unmarshal(obs.Body, &lv); err != nil {
			return nil, obs
		}
		return &lv, obs
	}
	conv := func(lv *xListVersions) []wEntry {
		var out []wEntry
		for _, e := range lv.Entries {
			switch e.XMLName.Local {
			case "Version":
				out = append(out, wEntry{K: fromBytes(w.x.Conc.Unkey(e.Key)), ID: e.VersionID, A: fmt.Sprintf("obj/%s/%s/%v", e.Size, e.ETag, e.IsLatest)})
			case "DeleteMarker":
				out = append(out, wEntry{K: fromBytes(w.x.Conc.Unkey(e.Key)), ID: e.VersionID, A: fmt.Sprintf("dm/%v", e.IsLatest)})
			}
		}
		return out
	}
	full, obs := list("", "", false, 0)
	if full == nil {
		w.notes = append(w.notes, fmt.Sprintf("unpaginated version listing failed: %d", obs.Status))
		return false
	}
	// the unpaginated listing with no prefix filter is the store content
	all, _ := list("", "", false, 0)
	if prefix != "" || delim != "" {
		op := Op{"op": "ListVersions", "b": bucket, "prefix": fromBytes(""), "delim": fromBytes("")}
		o2 := w.x.Do(op)
		var lv xListVersions
		if o2.Status == 200 && xml.Unmarshal(o2.Body, &lv) == nil {
			all = &lv
		}
	}
	liveV := conv(all)
	if w.liveOverride != nil {
		liveV = w.liveOverride
	}
	w.emit(wEvent{T: "start", Kind: "versions", Exact: false, Pag: true, Max: max,
		Prefix: fromBytes(prefix), Delim: fromBytes(delim), Live: liveV, Style: "versions"})
	km, vm, has := "", "", false
	for page := 0; page < maxPages; page++ {
		lv, obs := list(km, vm, has, w.reqMax(max))
		if lv == nil {
			w.emit(wEvent{T: "page", Note: fmt.Sprintf("status %d %s panic=%v", obs.Status, obs.ErrCode(), obs.Panic != ""), Trunc: true,
				Ents: []wEntry{{K: []interface{}{}, ID: "!error", A: fmt.Sprint(obs.Status)}}})
			break
		}
		ev := wEvent{T: "page", Trunc: lv.IsTruncated, Ents: conv(lv)}
		for _, p := range lv.CommonPrefixes {
			ev.Prefixes = append(ev.Prefixes, fromBytes(w.x.Conc.Unkey(p.Prefix)))
		}
		w.emit(ev)
		if !lv.IsTruncated {
			break
		}
		if lv.NextKeyMarker == "" {
			w.notes = append(w.notes, "truncated version listing without NextKeyMarker")
			break
		}
		km, vm, has = lv.NextKeyMarker, lv.NextVersionIDMarker, true
	}
	w.emit(wEvent{T: "end"})
	return true
}

// walkParts pages through ListParts of one upload.
func (w *walker) walkParts(up Op, max int) {
	var live []wEntry
	for _, p := range up.List("parts") {
		po := Op(p.(map[string]interface{}))
		body := w.x.Conc.Body(po.Atoms("body"))
		pn := w.x.Conc.PartNum(po.I("n"))
		live = append(live, wEntry{K: []interface{}{float64(pn / 256), float64(pn % 256)}, ID: strconv.Itoa(pn),
			A: fmt.Sprintf("%d/%s", len(body), quoteETag(body))})
	}
	if w.liveOverride != nil {
		live = w.liveOverride
	}
	w.emit(wEvent{T: "start", Kind: "parts", Exact: true, Pag: true, Max: max, Live: live, Style: "parts"})
	marker, has := 0, false
	for page := 0; page < maxPages; page++ {
		op := Op{"op": "ListParts", "b": up.S("b"), "k": up["k"], "uid": up.S("uid"), "max": float64(w.reqMax(max)), "marker": float64(marker), "hasMarker": has}
		obs := w.x.Do(op)
		var lp xListParts
		if obs.Status != 200 || xml.Unmarshal(obs.Body, &lp) != nil {
			w.emit(wEvent{T: "page", Note: fmt.Sprintf("status %d %s panic=%v", obs.Status, obs.ErrCode(), obs.Panic != ""), Trunc: true,
				Ents: []wEntry{{K: []interface{}{}, ID: "!error", A: fmt.Sprint(obs.Status)}}})
			break
		}
		ev := wEvent{T: "page", Trunc: lp.IsTruncated}
		for _, p := range lp.Parts {
			ev.Ents = append(ev.Ents, wEntry{K: []interface{}{float64(p.PartNumber / 256), float64(p.PartNumber % 256)}, ID: strconv.Itoa(p.PartNumber),
				A: p.Size + "/" + p.ETag})
		}
		w.emit(ev)
		if !lp.IsTruncated {
			break
		}
		marker, has = lp.NextPartNumberMarker, true
	}
	w.emit(wEvent{T: "end"})
}

// walkUploads pages through ListMultipartUploads of one bucket.
func (w *walker) walkUploads(fin Op, bucket, prefix, delim string, max int) {
	var live []wEntry
	for _, u := range fin.List("uploads") {
		uo := Op(u.(map[string]interface{}))
		if uo.S("b") != bucket {
			continue
		}
		live = append(live, wEntry{K: fromBytes(uo.Key("k")), ID: w.x.realUid(uo.S("uid")), A: "", Ord: uo.I("ord")})
	}
	if w.liveOverride != nil {
		live = w.liveOverride
	}
	w.emit(wEvent{T: "start", Kind: "uploads", Exact: true, Pag: true, Max: max, Prefix: fromBytes(prefix), Delim: fromBytes(delim),
		Live: live, Style: "uploads"})
	km, um, has := "", "", false
	for page := 0; page < maxPages; page++ {
		op := Op{"op": "ListUploads", "b": bucket, "prefix": fromBytes(prefix), "delim": fromBytes(delim), "max": float64(w.reqMax(max))}
		if has {
			op["keyMarker"] = km
			op["uidMarker"] = um
		}
		obs := w.x.Do(op)
		var lu xListUploads
		if obs.Status != 200 || xml.Unmarshal(obs.Body, &lu) != nil {
			w.emit(wEvent{T: "page", Note: fmt.Sprintf("status %d %s panic=%v", obs.Status, obs.ErrCode(), obs.Panic != ""), Trunc: true,
				Ents: []wEntry{{K: []interface{}{}, ID: "!error", A: fmt.Sprint(obs.Status)}}})
			break
		}
		ev := wEvent{T: "page", Trunc: lu.IsTruncated}
		for _, u := range lu.Uploads {
			ev.Ents = append(ev.Ents, wEntry{K: fromBytes(w.x.Conc.Unkey(u.Key)), ID: u.UploadID, A: ""})
		}
		for _, p := range lu.CommonPrefixes {
			ev.Prefixes = append(ev.Prefixes, fromBytes(w.x.Conc.Unkey(p.Prefix)))
		}
		w.emit(ev)
		if !lu.IsTruncated {
			break
		}
		if lu.NextKeyMarker == "" {
			w.notes = append(w.notes, "truncated upload listing without NextKeyMarker")
			break
		}
		km, um, has = lu.NextKeyMarker, lu.NextUploadIDMarker, true
	}
	w.emit(wEvent{T: "end"})
}

type walkSummary struct {
	Tours      int            `json:"tours"`
	Walks      int            `json:"walks"`
	Events     int            `json:"events"`
	SetupBad   []*Mismatch    `json:"setup_mismatches"`
	PerSystem  map[string]int `json:"per_system"`
	Notes      map[string]int `json:"notes"`
	Executions int            `json:"executions"`
}

func cmdWalk(args []string) {
	fs := flag.NewFlagSet("walk", flag.ExitOnError)
	kind := fs.String("kind", "objects", "objects|versions|uploads|parts")
	systems := fs.String("systems", "mem", "systems")
	opts := fs.String("opts", "", "front-end options")
	seed := fs.Int64("seed", 1, "seed")
	trace := fs.String("trace", "", "NDJSON trace output")
	out := fs.String("out", "", "summary output")
	workers := fs.Int("workers", 16, "workers")
	every := fs.Int("every", 1, "use every n-th tour")
	only := fs.Int("only", 0, "only this tour index (replay)")
	maxExtra := fs.Int("maxextra", 1, "page sizes 1..entries+maxextra")
	keys := fs.String("keys", "plain", "plain|rich|rich2: concretization of the keys")
	fs.Parse(args)

	cfg := &RunCfg{Systems: strings.Split(*systems, ","), Opts: parseOpts(*opts), Seed: *seed, KeyModes: parseKeyModes(*keys)}
	tf, err := os.Create(*trace)
	if err != nil {
		fmt.Fprintln(os.Stderr, err)
		os.Exit(2)
	}
	tw := bufio.NewWriterSize(tf, 1<<20)
	sum := &walkSummary{PerSystem: map[string]int{}, Notes: map[string]int{}}
	var mu sync.Mutex
	type job struct {
		idx int
		t   *walkTour
	}
	jobs := make(chan job, 64)
	var wg sync.WaitGroup
	for i := 0; i < *workers; i++ {
		wg.Add(1)
		go func() {
			defer wg.Done()
			for j := range jobs {
				for _, sysName := range cfg.Systems {
					evs, notes, bad := walkOne(cfg, sysName, j.idx, j.t, *kind, *maxExtra)
					mu.Lock()
					sum.Executions++
					sum.PerSystem[sysName]++
					if bad != nil && len(sum.SetupBad) < 10 {
						sum.SetupBad = append(sum.SetupBad, bad)
					}
					for _, n := range notes {
						sum.Notes[n]++
					}
					enc := json.NewEncoder(tw)
					for _, e := range evs {
						if e.T == "start" {
							sum.Walks++
						}
						sum.Events++
						enc.Encode(e)
					}
					mu.Unlock()
				}
			}
		}()
	}
	rd := bufio.NewReaderSize(os.Stdin, 1<<20)
	idx := 0
	for {
		line, err := rd.ReadString('\n')
		if len(line) > 0 {
			if t := parseWalkTour(line); t != nil {
				idx++
				if (*only == 0 && idx%*every == 0) || *only == idx {
					jobs <- job{idx, t}
				}
			}
		}
		if err == io.EOF {
			break
		}
		if err != nil {
			break
		}
	}
	close(jobs)
	wg.Wait()
	sum.Tours = idx
	tw.Flush()
	tf.Close()
	b, _ := json.MarshalIndent(sum, "", " ")
	if *out != "" {
		os.WriteFile(*out, b, 0644)
	}
	fmt.Fprintf(os.Stderr, "walk: %d tours, %d walks, %d events, notes %v\n", sum.Tours, sum.Walks, sum.Events, sum.Notes)
}

func init() { commands["walk"] = cmdWalk }

// walkOne sets the store up along the tour and records all walks of one kind.
func walkOne(cfg *RunCfg, sysName string, idx int, t *walkTour, kind string, maxExtra int) ([]wEvent, []string, *Mismatch) {
	sys, err := NewSystem(sysName, cfg.Opts)
	if err != nil {
		fmt.Fprintln(os.Stderr, "harness error:", err)
		os.Exit(2)
	}
	defer sys.Close()
	conc := NewConc(cfg.Seed, int64(idx), false)
	conc.small = true
	if len(cfg.KeyModes) > 0 {
		conc.keyMode = cfg.KeyModes[0]
	}
	x := NewExec(sys, conc)
	w := &walker{x: x, tour: idx}
	n := len(t.H)
	if t.NSetup > 0 {
		n = t.NSetup
	}
	for i := 0; i < n; i++ {
		obs := x.Do(t.H[i].Op)
		if bad := x.Compare(t.H[i].Op, t.H[i].R, obs); len(bad) > 0 {
			return nil, nil, &Mismatch{System: sysName, Tour: t.H, At: i, Msgs: bad, Salt: int64(idx), Seed: cfg.Seed}
		}
	}
	switch kind {
	case "objects":
		// distinct (prefix, delimiter) pairs of the tour's queries
		type pd struct{ p, d string }
		seen := map[pd]bool{}
		var pairs []pd
		for _, s := range t.H[n:] {
			if s.Op.S("op") != "ListObjects" {
				continue
			}
			q := pd{s.Op.Key("prefix"), s.Op.Key("delim")}
			if !seen[q] {
				seen[q] = true
				pairs = append(pairs, q)
			}
		}
		if len(pairs) == 0 {
			pairs = []pd{{"", ""}, {"", "/"}}
		}
		for _, b := range t.Fin.List("buckets") {
			bucket := Op(b.(map[string]interface{})).S("b")
			live := w.liveObjects(t.Fin, bucket)
			for _, q := range pairs {
				for max := 1; max <= len(live)+maxExtra; max++ {
					w.walkObjects(bucket, live, q.p, q.d, max, false)
					w.walkObjects(bucket, live, q.p, q.d, max, true)
					if max <= 2 {
						w.walkObjectsSA(bucket, live, q.p, q.d, max, true, true)
						// ... and with a start-after that names the first live key (no delimiter: a start-after inside a
						// common prefix leaves that prefix optional)
						if q.d == "" && len(live) >= 2 && w.x.Sys.Paginates() { // (the fallback path ignores markers: everything at once)
							w.walkObjectsFrom(bucket, live, q.p, q.d, max, true, true, toBytes(live[0].K))
						}
					}
				}
			}
		}
	case "versions":
		for _, b := range t.Fin.List("buckets") {
			bo := Op(b.(map[string]interface{}))
			nver := 0
			for _, o := range bo.List("objs") {
				nver += len(Op(o.(map[string]interface{})).List("vs"))
			}
			for _, q := range [][2]string{{"", ""}, {"", "/"}, {"a", ""}, {"d/", "/"}} {
				for max := 1; max <= nver+maxExtra; max++ {
					w.walkVersions(bo.S("b"), q[0], q[1], max)
				}
			}
		}
	case "parts":
		for _, u := range t.Fin.List("uploads") {
			uo := Op(u.(map[string]interface{}))
			for max := 1; max <= len(uo.List("parts"))+maxExtra; max++ {
				w.walkParts(uo, max)
			}
		}
	case "uploads":
		buckets := map[string]int{}
		for _, u := range t.Fin.List("uploads") {
			buckets[Op(u.(map[string]interface{})).S("b")]++
		}
		for b, n := range buckets {
			for _, q := range [][2]string{{"", ""}, {"", "/"}, {"d/", "/"}, {"a", ""}} {
				for max := 1; max <= n+maxExtra; max++ {
					w.walkUploads(t.Fin, b, q[0], q[1], max)
				}
			}
		}
	}
	return w.out, w.notes, nil
}
