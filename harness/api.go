package main

// The Go API path: the same abstract operations executed by calling the
// gofakes3.Backend (and VersionedBackend) methods directly, without the HTTP
// front end.  Each result is rendered as the response the front end would
// build from it (status from the error's code, the identifying headers, the
// harness's own XML documents), so that the same comparator decides.  What is
// NOT on this path is exactly what the front end adds: bucket-existence checks
// before every call, name validation, metadata extraction, integrity checks,
// the listing fall-back of non-paginating backends.

import (
	"bytes"
	"encoding/hex"
	"encoding/xml"
	"fmt"
	"io/ioutil"
	"net/http"
	"strconv"

	"github.com/johannesboyne/gofakes3"
)

func apiErr(err error) *Observed {
	code := gofakes3.ErrInternal
	if ec, ok := err.(interface{ ErrorCode() gofakes3.ErrorCode }); ok {
		code = ec.ErrorCode()
	}
	body, _ := xml.Marshal(xError{Code: string(code), Message: err.Error()})
	return &Observed{Status: code.Status(), Header: http.Header{}, Body: body}
}

func apiOK(status int) *Observed { return &Observed{Status: status, Header: http.Header{}} }

func (x *Exec) apiMeta(meta map[string]string) map[string]string {
	out := map[string]string{}
	for name, v := range meta {
		out[metaHeader(name)] = x.Conc.MetaValue(name, v)
	}
	return out
}

func apiObject(obj *gofakes3.Object, withBody bool) *Observed {
	o := apiOK(200)
	if obj.VersionID != "" {
		o.Header.Set("x-amz-version-id", string(obj.VersionID))
	}
	if obj.IsDeleteMarker {
		o.Header.Set("x-amz-delete-marker", "true")
		if obj.Contents != nil {
			obj.Contents.Close()
		}
		e := apiErr(gofakes3.KeyNotFound(obj.Name))
		e.Header = o.Header
		return e
	}
	for k, v := range obj.Metadata {
		o.Header.Set(k, v)
	}
	o.Header.Set("ETag", `"`+hex.EncodeToString(obj.Hash)+`"`)
	o.Header.Set("Content-Length", strconv.FormatInt(obj.Size, 10))
	if obj.Contents != nil {
		b, err := ioutil.ReadAll(obj.Contents)
		obj.Contents.Close()
		if err != nil {
			return apiErr(err)
		}
		if withBody {
			o.Body = b
			if int64(len(b)) != obj.Size {
				// a Size that disagrees with the content is reported through the Content-Length comparison
				o.Header.Set("Content-Length", fmt.Sprintf("%d (Object.Size) but %d bytes of content", obj.Size, len(b)))
			}
		}
	}
	return o
}

// apiDo executes op through the Backend interface; nil when the operation has
// no counterpart there.
func (x *Exec) apiDo(op Op) (res *Observed) {
	defer func() {
		if p := recover(); p != nil {
			res = &Observed{Panic: fmt.Sprint(p)}
		}
	}()
	be := x.Sys.Backend
	vb, versioned := be.(gofakes3.VersionedBackend)
	b := toBytes(op["b"])
	k := x.Conc.Key(op.Key("k"))
	switch op.S("op") {
	case "CreateBucket":
		if err := be.CreateBucket(b); err != nil {
			return apiErr(err)
		}
		return apiOK(200)
	case "HeadBucket":
		ok, err := be.BucketExists(b)
		if err != nil {
			return apiErr(err)
		}
		if !ok {
			return apiErr(gofakes3.BucketNotFound(b))
		}
		return apiOK(200)
	case "DeleteBucket":
		var err error
		if op.B("force") {
			err = be.ForceDeleteBucket(b)
		} else {
			err = be.DeleteBucket(b)
		}
		if err != nil {
			return apiErr(err)
		}
		return apiOK(204)
	case "ListBuckets":
		bs, err := be.ListBuckets()
		if err != nil {
			return apiErr(err)
		}
		var sb bytes.Buffer
		sb.WriteString("<ListAllMyBucketsResult><Buckets>")
		for _, bi := range bs {
			sb.WriteString("<Bucket><Name>")
			xml.EscapeText(&sb, []byte(bi.Name))
			sb.WriteString("</Name></Bucket>")
		}
		sb.WriteString("</Buckets></ListAllMyBucketsResult>")
		o := apiOK(200)
		o.Body = sb.Bytes()
		return o
	case "PutObject":
		if op.Has("md5") {
			return nil
		}
		body := x.Conc.Body(op.Atoms("body"))
		r, err := be.PutObject(b, k, x.apiMeta(op.StrMap("meta")), bytes.NewReader(body), int64(len(body)))
		if err != nil {
			return apiErr(err)
		}
		o := apiOK(200)
		o.Header.Set("ETag", quoteETag(body)) // (computed by the front end, not by the backend)
		if r.VersionID != "" {
			o.Header.Set("x-amz-version-id", string(r.VersionID))
		}
		return o
	case "GetObject", "HeadObject":
		if op.Has("range") || op.Has("inm") || op.Has("ims") {
			return nil
		}
		var obj *gofakes3.Object
		var err error
		if op.S("op") == "GetObject" {
			obj, err = be.GetObject(b, k, nil)
		} else {
			obj, err = be.HeadObject(b, k)
		}
		if err != nil {
			return apiErr(err)
		}
		o := apiObject(obj, op.S("op") == "GetObject")
		o.Method = map[string]string{"GetObject": "GET", "HeadObject": "HEAD"}[op.S("op")]
		return o
	case "DeleteObject":
		r, err := be.DeleteObject(b, k)
		if err != nil {
			return apiErr(err)
		}
		o := apiOK(204)
		if r.VersionID != "" {
			o.Header.Set("x-amz-version-id", string(r.VersionID))
		}
		if r.IsDeleteMarker {
			o.Header.Set("x-amz-delete-marker", "true")
		} else {
			o.Header.Set("x-amz-delete-marker", "false")
		}
		return o
	case "DeleteMulti":
		var names []string
		var ids []gofakes3.ObjectID
		withVids := false
		for _, e := range op.List("objs") {
			eo := Op(e.(map[string]interface{}))
			id := gofakes3.ObjectID{Key: x.Conc.Key(eo.Key("k"))}
			if eo.S("vid") != "" {
				withVids = true
				id.VersionID = x.realVid(eo.S("vid"))
			}
			names = append(names, id.Key)
			ids = append(ids, id)
		}
		var r gofakes3.MultiDeleteResult
		var err error
		if withVids {
			if !versioned || !x.Sys.Versioned() {
				return nil
			}
			r, err = vb.DeleteMultiVersions(b, ids...)
		} else {
			r, err = be.DeleteMulti(b, names...)
		}
		if err != nil {
			return apiErr(err)
		}
		if op.B("quiet") {
			r.Deleted = nil // (what the front end does with the result)
		}
		var sb bytes.Buffer
		sb.WriteString("<DeleteResult>")
		for _, d := range r.Deleted {
			sb.WriteString("<Deleted><Key>")
			xml.EscapeText(&sb, []byte(d.Key))
			sb.WriteString("</Key></Deleted>")
		}
		for _, e := range r.Error {
			sb.WriteString("<Error><Key>")
			xml.EscapeText(&sb, []byte(e.Key))
			sb.WriteString("</Key><Code>" + string(e.Code) + "</Code></Error>")
		}
		sb.WriteString("</DeleteResult>")
		o := apiOK(200)
		o.Body = sb.Bytes()
		return o
	case "CopyObject":
		if len(op.StrMap("meta")) > 0 || op.B("srcInternal") {
			return nil
		}
		sb, sk := op.S("sb"), x.Conc.Key(op.Key("sk"))
		// (the order of the checks when both the destination bucket and the source are missing is the front end's)
		if ok, err := be.BucketExists(b); err == nil && !ok {
			return apiErr(gofakes3.BucketNotFound(b))
		}
		src, err := be.HeadObject(sb, sk)
		if err != nil {
			return apiErr(err)
		}
		if src.IsDeleteMarker {
			return apiErr(gofakes3.KeyNotFound(sk))
		}
		r, err := be.CopyObject(sb, sk, b, k, src.Metadata)
		if err != nil {
			return apiErr(err)
		}
		body, _ := xml.Marshal(xCopyResult{ETag: r.ETag})
		o := apiOK(200)
		o.Body = body
		return o
	case "ListObjects":
		if op.Has("token") || (op.B("hasMarker") && op.S("markerKind") == "token") {
			return nil
		}
		page := gofakes3.ListBucketPage{MaxKeys: int64(op.I("max"))}
		if op.B("hasMarker") {
			page.HasMarker, page.Marker = true, x.Conc.Key(op.Key("marker"))
			if op.B("v2") && page.Marker != "" {
				// callers of the Go API also resume with only Marker set (HasMarker tells an empty marker from none)
				page.HasMarker = false
			}
		}
		if !x.Sys.Paginates() && !page.IsEmpty() {
			return nil // the fall-back for backends that do not paginate is the front end's
		}
		prefix := gofakes3.Prefix{}
		if p := x.Conc.KeyPrefix(op.Key("prefix")); p != "" {
			prefix.HasPrefix, prefix.Prefix = true, p
		}
		if d := op.Key("delim"); d != "" {
			prefix.HasDelimiter, prefix.Delimiter = true, d
		}
		l, err := be.ListBucket(b, &prefix, page)
		if err != nil {
			return apiErr(err)
		}
		var sb bytes.Buffer
		sb.WriteString("<ListBucketResult><Name>" + b + "</Name>")
		fmt.Fprintf(&sb, "<IsTruncated>%v</IsTruncated>", l.IsTruncated)
		for _, c := range l.Contents {
			sb.WriteString("<Contents><Key>")
			xml.EscapeText(&sb, []byte(c.Key))
			sb.WriteString("</Key><ETag>")
			xml.EscapeText(&sb, []byte(c.ETag))
			fmt.Fprintf(&sb, "</ETag><Size>%d</Size></Contents>", c.Size)
		}
		for _, p := range l.CommonPrefixes {
			sb.WriteString("<CommonPrefixes><Prefix>")
			xml.EscapeText(&sb, []byte(p.Prefix))
			sb.WriteString("</Prefix></CommonPrefixes>")
		}
		sb.WriteString("</ListBucketResult>")
		o := apiOK(200)
		o.Body = sb.Bytes()
		return o
	}
	if !versioned || !x.Sys.Versioned() {
		return nil
	}
	switch op.S("op") {
	case "GetVersioning":
		vc, err := vb.VersioningConfiguration(b)
		if err != nil {
			return apiErr(err)
		}
		body, _ := xml.Marshal(xVersioning{Status: string(vc.Status)})
		o := apiOK(200)
		o.Body = body
		return o
	case "PutVersioning":
		var vc gofakes3.VersioningConfiguration
		vc.Status = gofakes3.VersioningStatus(op.S("status"))
		if err := vb.SetVersioningConfiguration(b, vc); err != nil {
			return apiErr(err)
		}
		return apiOK(200)
	case "GetObjectVersion", "HeadObjectVersion":
		vid := gofakes3.VersionID(x.realVid(op.S("vid")))
		var obj *gofakes3.Object
		var err error
		if op.S("op") == "GetObjectVersion" {
			obj, err = vb.GetObjectVersion(b, k, vid, nil)
		} else {
			obj, err = vb.HeadObjectVersion(b, k, vid)
		}
		if err != nil {
			return apiErr(err)
		}
		o := apiObject(obj, op.S("op") == "GetObjectVersion")
		o.Method = map[string]string{"GetObjectVersion": "GET", "HeadObjectVersion": "HEAD"}[op.S("op")]
		return o
	case "DeleteObjectVersion":
		r, err := vb.DeleteObjectVersion(b, k, gofakes3.VersionID(x.realVid(op.S("vid"))))
		if err != nil {
			return apiErr(err)
		}
		o := apiOK(204)
		if r.VersionID != "" {
			o.Header.Set("x-amz-version-id", string(r.VersionID))
		}
		if r.IsDeleteMarker {
			o.Header.Set("x-amz-delete-marker", "true")
		} else {
			o.Header.Set("x-amz-delete-marker", "false")
		}
		return o
	}
	return nil
}
