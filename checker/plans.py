"""Per-property check plans: which model configurations TLC explores and on
which systems the emitted behaviours are replayed."""
from .core import Report, tour_stage, walk_stage, chunk_stage, crash_stage, conc_stage, fuzz_stage, repotests_stage, scale_stage
from . import core

ALL4 = ["mem", "bolt", "multimem", "multios"]
CORE_OPS = {"CreateBucket", "HeadBucket", "DeleteBucket", "ListBuckets", "PutObject", "GetObject", "HeadObject",
            "DeleteObject", "DeleteMulti", "DeleteMultiQuiet", "CopyObject", "ListObjects"}
STORE_PROPS = ["NeverLost", "Frame", "RejectedUnchanged", "FreshVid", "ReadYourWrite"]
STORE_INVS = ["TypeOK", "NeverVersionedFlat", "UniqueVids"]


def store_consts(**kw):
    c = dict(Buckets={"bkt1", "bkt2"}, KeySetName="nest2", Bodies={"x1", "x2"}, OpNames=CORE_OPS,
             CfgName="plain", MaxVids=0, MaxDepth=0, WithEmpty=False, Ghosts=True,
             PartNums={1, 2}, PartBodies={"p1", "p2"}, MaxUploads=0, MaxList=2, BadBuckets=set(), AfterRefusal=False, AfterRead=False)
    c.update(kw)
    return c


def c02(tier, seed, work):
    rep = Report("C02", tier, seed)
    thorough = tier == "thorough"
    st = dict(invariants=STORE_INVS, properties=STORE_PROPS)
    # every transition of the bounded store (ghost-refined) on every multi-bucket backend
    tour_stage(rep, work, "store-2b-2k", "MC_Store", store_consts(), ALL4, **st)
    # auto-bucket creation
    tour_stage(rep, work, "auto-2b-1k", "MC_Store",
               store_consts(KeySetName="a", CfgName="plainauto", Bodies={"x1"}), ALL4, opts="auto", **st)
    # the single-bucket backends restricted to their bucket (bkt2 never exists)
    tour_stage(rep, work, "single-2k", "MC_Store",
               store_consts(CfgName="single", OpNames=CORE_OPS - {"ListBuckets"}),
               ["singlemem", "singleos"], **st)
    # two directory levels sharing the first (d/e/x, d/y): deleting the deepest must not take its parents' other entries
    tour_stage(rep, work, "deep-keys", "MC_Store",
               store_consts(Buckets={"bkt1"}, KeySetName="deep", Bodies={"x1"}, OpNames=CORE_OPS - {"HeadBucket", "ListBuckets", "CopyObject"}),
               ALL4, **st)
    tour_stage(rep, work, "deep-keys-single", "MC_Store",
               store_consts(Buckets={"bkt1"}, KeySetName="deep", Bodies={"x1"}, CfgName="single",
                            OpNames=CORE_OPS - {"HeadBucket", "ListBuckets", "CopyObject", "CreateBucket", "DeleteBucket"}),
               ["singlemem", "singleos"], **st)
    # keys that are the directory of a stored key (d, d/e next to d/x, d/e/x): never written, but read and deleted like
    # any other missing key
    tour_stage(rep, work, "directory-keys", "MC_Store",
               store_consts(Buckets={"bkt1"}, KeySetName="dirkey", Bodies={"x1"},
                            OpNames={"CreateBucket", "DeleteBucket", "PutObject", "GetObject", "HeadObject", "DeleteObject",
                                     "DeleteMulti", "CopyObject", "ListObjects"}),
               ALL4, **st)
    tour_stage(rep, work, "directory-keys-single", "MC_Store",
               store_consts(Buckets={"bkt1"}, KeySetName="dirkey", Bodies={"x1"}, CfgName="single",
                            OpNames={"PutObject", "GetObject", "HeadObject", "DeleteObject", "DeleteMulti", "CopyObject", "ListObjects"}),
               ["singlemem", "singleos"], **st)
    # every operation after every HEAD / GET of an object (what a read may have left in a cache must not outlive a write,
    # a delete, a multi-object delete or a copy)
    tour_stage(rep, work, "after-reads", "MC_Store",
               store_consts(Buckets={"bkt1"}, KeySetName="nest2", Bodies={"x1", "x2"}, Ghosts=False, AfterRead=True,
                            OpNames={"CreateBucket", "PutObject", "GetObject", "HeadObject", "DeleteObject", "DeleteMulti",
                                     "CopyObject", "ListObjects"}),
               ALL4, small=True, **st)
    tour_stage(rep, work, "after-reads-single", "MC_Store",
               store_consts(Buckets={"bkt1"}, KeySetName="nest2", Bodies={"x1", "x2"}, Ghosts=False, AfterRead=True, CfgName="single",
                            OpNames={"PutObject", "GetObject", "HeadObject", "DeleteObject", "DeleteMulti", "CopyObject", "ListObjects"}),
               ["singlemem", "singleos"], small=True, **st)
    # uploads refused after their body was read, in buckets that are empty, hold a neighbour, or do not exist
    tour_stage(rep, work, "refused-uploads", "MC_Store",
               store_consts(KeySetName="nest2", Bodies={"x1"},
                            OpNames={"CreateBucket", "DeleteBucket", "HeadBucket", "PutObject", "PutRefused", "GetObject",
                                     "DeleteObject", "ListObjects"}),
               ALL4, small=True, **st)
    # bucket names that are prefixes of each other (bkt1, bkt12): deleting one must leave the other alone
    tour_stage(rep, work, "prefix-named-buckets", "MC_Store",
               store_consts(Buckets={"bkt1", "bkt12"}, KeySetName="nest2", Bodies={"x1"},
                            OpNames={"CreateBucket", "DeleteBucket", "ForceDelete", "PutObject", "GetObject", "DeleteObject",
                                     "ListObjects", "ListBuckets"}),
               ALL4, **st)
    # bucket names that sort before the backends' internal names (a leading digit) next to ordinary ones
    tour_stage(rep, work, "digit-bucket-names", "MC_Store",
               store_consts(Buckets={"0ab", "bkt1"}, KeySetName="a", Bodies={"x1"},
                            OpNames={"CreateBucket", "DeleteBucket", "HeadBucket", "PutObject", "GetObject", "ListBuckets", "ListObjects"}),
               ALL4, **st)
    # keys with unusual but legal characters, drawn per tour (punctuation special to URLs / XML / file systems /
    # base64, DEL, C1 controls, 2-4-byte UTF-8, trailing blanks)
    tour_stage(rep, work, "store-odd-characters", "MC_Store",
               store_consts(Buckets={"bkt1"}, KeySetName="nest", Bodies={"x1"},
                            OpNames=CORE_OPS - {"HeadBucket", "ListBuckets", "CreateBucket", "DeleteBucket"} | {"CreateBucket"}),
               ALL4, keys="rich3", small=True, **st)
    # configurations: a front end built without versioning on the versioned backend, with the time-skew limit, with the
    # integrity check off, with clocks that stand still (every time source fixed: all timestamps equal), and the
    # multi-bucket fs backend with its metadata on a separate file system
    for tag, sysl, o, cfgn in (("noversioning", ["mem"], "noversioning", "plain"), ("skew", ["mem", "bolt"], "skew", None),
                               ("nointegrity", ["mem", "multimem"], "nointegrity", None),
                               ("fixed-clock", ["mem", "bolt", "multimem"], "fixedclock", None),
                               ("separate-metadata-fs", ["multimem"], "metafs", None)):
        kw = dict(CfgName=cfgn) if cfgn else {}
        tour_stage(rep, work, "option-" + tag, "MC_Store",
                   store_consts(Buckets={"bkt1"}, KeySetName="nest2", Bodies={"x1"}, OpNames=CORE_OPS | {"PutMetaB"}, **kw), sysl,
                   opts=o, small=True, **st)
    # beyond the listed operations: forced bucket deletion (x-minio-force-delete) and conditional reads (If-None-Match)
    tour_stage(rep, work, "force-delete-cond-get", "MC_Store",
               store_consts(Buckets={"bkt1"}, Bodies={"x1", "x2"},
                            OpNames={"CreateBucket", "DeleteBucket", "ForceDelete", "PutObject", "DeleteObject", "GetObject",
                                     "CondGet", "ListBuckets"}),
               ALL4, **st)
    tour_stage(rep, work, "single-force-delete", "MC_Store",
               store_consts(CfgName="single", Buckets={"bkt1"}, Bodies={"x1"},
                            OpNames={"DeleteBucket", "ForceDelete", "PutObject", "DeleteObject", "GetObject", "ListObjects"}),
               ["singlemem", "singleos"], **st)
    repotests_stage(rep, work, "repository-tests state trace:", which="mem")
    # the Go API path: the same histories through the Backend methods, without the HTTP front end (harness/api.go)
    tour_stage(rep, work, "go-api-store", "MC_Store",
               store_consts() if thorough else store_consts(KeySetName="nest2", Bodies={"x1"}), ALL4, addr="api", **st)
    tour_stage(rep, work, "go-api-single", "MC_Store",
               store_consts(CfgName="single", OpNames=CORE_OPS - {"ListBuckets"}), ["singlemem", "singleos"], addr="api", **st)
    # empty bodies and the browser-form upload path
    tour_stage(rep, work, "post-empty", "MC_Store",
               store_consts(Buckets={"bkt1"}, Bodies={"x1"}, WithEmpty=True,
                            OpNames={"CreateBucket", "DeleteBucket", "PutObject", "PostObject", "GetObject",
                                     "HeadObject", "DeleteObject", "CopyObject", "ListObjects"}),
               ALL4, keys="rich", **st)
    # keys that differ only in '/', '_' and '\\' (they flatten to the same name on the fs backends), with metadata
    tour_stage(rep, work, "colliding-keys", "MC_Store",
               store_consts(Buckets={"bkt1"}, KeySetName="coll", Bodies={"x1", "x2"},
                            OpNames={"CreateBucket", "PutMeta", "PutMetaB", "GetObject", "HeadObject", "DeleteObject", "ListObjects"}),
               ALL4, small=True, **st)
    tour_stage(rep, work, "colliding-keys-single", "MC_Store",
               store_consts(Buckets={"bkt1"}, KeySetName="coll", Bodies={"x1", "x2"}, CfgName="single",
                            OpNames={"PutMeta", "PutMetaB", "GetObject", "HeadObject", "DeleteObject", "ListObjects"}),
               ["singlemem", "singleos"], small=True, **st)
    # a key that is the percent-escaped spelling of another one (a/b, a%2Fb): copies between them in both directions
    # (the copy source travels escaped in a header, the destination in the request line)
    tour_stage(rep, work, "escaped-spelling-keys", "MC_Store",
               store_consts(Buckets={"bkt1"}, KeySetName="pct", Bodies={"x1", "x2"},
                            OpNames={"CreateBucket", "PutObject", "CopyObject", "GetObject", "DeleteObject", "ListObjects"}),
               ALL4, small=True, **st)
    tour_stage(rep, work, "prefix-keys-kv", "MC_Store",
               store_consts(Buckets={"bkt1"}, KeySetName="list", Bodies={"x1"},
                            OpNames={"CreateBucket", "DeleteBucket", "PutObject", "GetObject", "DeleteObject", "DeleteMulti", "ListObjects"}),
               ["mem", "bolt"], small=True, **st)
    # direction B: long random sequential histories (150 operations on three keys) recorded from every backend and
    # validated by TLC against S3!Step (TraceConc with a single client)
    conc_stage(rep, work, "random-histories", ALL4 + ["singlemem", "singleos"], [1], runs=8 if thorough else 3, ops=0, keys=3,
               gated=False, seq=300 if thorough else 150)
    if thorough:
        tour_stage(rep, work, "store-2b-3k", "MC_Store", store_consts(KeySetName="nest"), ALL4, small=True,
                   timeout=3000, **st)
        tour_stage(rep, work, "store-rich", "MC_Store", store_consts(), ALL4, keys="rich", thorough=True, **st)
    rep.assumptions += [
        "bucket names in histories are valid names; keys are within each backend's key domain (DESIGN 5.3)",
        "bodies are concretized per size class with seeded random bytes, not enumerated",
        "metadata beyond what the request sent is followed, not required",
    ]
    return rep


VER_OPS = {"CreateBucket", "PutObject", "GetObject", "HeadObject", "DeleteObject", "PutVersioning", "GetVersioning",
           "GetObjectVersion", "HeadObjectVersion", "DeleteObjectVersion", "DeleteMultiVersions", "ListVersions",
           "ListObjects"}
VER_INVS = ["TypeOK", "UniqueVids"]


def c05(tier, seed, work):
    rep = Report("C05", tier, seed)
    st = dict(invariants=VER_INVS, properties=STORE_PROPS)
    # every transition of one key's version history: <= 2 version-creating steps, any
    # number of status changes, reads, version deletes in between
    tour_stage(rep, work, "ver-1k-2v", "MC_Store",
               store_consts(Buckets={"bkt1"}, KeySetName="a", CfgName="mem", OpNames=VER_OPS, MaxVids=2, Ghosts=False),
               ["mem"], memtrace=tier == "thorough", **st)
    # direction B from inside the backend: the repository's own tests run with the s3mem state hooks on; every
    # mutation's resulting version stack must be an outcome of the specification (TraceMem.tla)
    repotests_stage(rep, work, "repository-tests state trace:", which="mem")
    # the Go API path: VersionedBackend methods called directly
    tour_stage(rep, work, "go-api-ver-1k-2v", "MC_Store",
               store_consts(Buckets={"bkt1"}, KeySetName="a", CfgName="mem", OpNames=VER_OPS, MaxVids=2, Ghosts=False),
               ["mem"], addr="api", **st)
    # configurations of the in-memory backend: clocks that stand still (all versions carry the same timestamp) and a
    # negative version seed
    for tag, o in (("fixed-clock", "fixedclock"), ("negative-version-seed", "negseed")):
        tour_stage(rep, work, "ver-1k-3v-" + tag, "MC_Store",
                   store_consts(Buckets={"bkt1"}, KeySetName="a", CfgName="mem", Bodies={"x1"}, MaxVids=3, Ghosts=False,
                                OpNames={"CreateBucket", "PutObject", "DeleteObject", "PutVersioning",
                                         "DeleteObjectVersion", "GetObject", "ListVersions"}),
                   ["mem"], opts=o, small=True, **st)
    # three versions, without the status-reading operations
    tour_stage(rep, work, "ver-1k-3v", "MC_Store",
               store_consts(Buckets={"bkt1"}, KeySetName="a", CfgName="mem", Bodies={"x1"}, MaxVids=3, Ghosts=False,
                            OpNames={"CreateBucket", "PutObject", "DeleteObject", "PutVersioning",
                                     "DeleteObjectVersion", "GetObjectVersion"}),
               ["mem"], **st)
    # one multi-delete request mixing entries with and without a version id, on two keys
    tour_stage(rep, work, "ver-2k-mixed-multi-delete", "MC_Store",
               store_consts(Buckets={"bkt1"}, KeySetName="ab", CfgName="memenabled", Bodies={"x1"}, MaxVids=3, Ghosts=False,
                            OpNames={"PutObject", "DeleteMultiMixed", "DeleteObject", "GetObject"}),
               ["mem"], small=True, **st)
    # copies between two versioned keys that carry different metadata (the copy requests carry every spelling of
    # x-amz-metadata-directive): every earlier version keeps exactly its own metadata, read by id
    tour_stage(rep, work, "ver-2k-copy-metadata", "MC_Store",
               store_consts(Buckets={"bkt1"}, KeySetName="ab", CfgName="memenabled", Bodies={"x1"}, MaxVids=3, Ghosts=False,
                            OpNames={"PutMeta", "PutMetaB", "CopyObject", "GetObjectVersion", "HeadObjectVersion"}),
               ["mem"], small=True, **st)
    # beyond the small scope: a key versioned after the backend has issued 99990 version ids (the ids' leading digits
    # change at 100000), read by id and deleted newest first
    conc_stage(rep, work, "scale-version-counter", ["mem"], [1], runs=0, ops=0, keys=1, gated=False, big="counter")
    # direction B: long random version histories (status changes, version deletes, multi-deletes, copies) on three keys
    conc_stage(rep, work, "random-version-histories", ["mem"], [1], runs=24 if tier == "thorough" else 8, ops=0, keys=3,
               gated=False, seq=400 if tier == "thorough" else 200)
    if tier == "thorough":
        tour_stage(rep, work, "ver-1k-3v-all", "MC_Store",
                   store_consts(Buckets={"bkt1"}, KeySetName="a", CfgName="mem", OpNames=VER_OPS, MaxVids=3,
                                Ghosts=False), ["mem"], timeout=3000, small=True, **st)
        tour_stage(rep, work, "ver-2k-2v", "MC_Store",
                   store_consts(Buckets={"bkt1"}, KeySetName="ab", CfgName="mem", Bodies={"x1"},
                                OpNames=VER_OPS - {"HeadObject", "GetVersioning"}, MaxVids=2, Ghosts=False),
                   ["mem"], timeout=3000, small=True, **st)
    rep.assumptions += [
        "version ids of versions created while versioning was not enabled, by copy or by multi-delete are not "
        "revealed by any reply and are never addressed by id",
        "delete while Suspended and Suspend on a never-versioned bucket are don't-care regions resolved to what "
        "the code does for generation (DESIGN 5.2)",
    ]
    return rep


def list_consts(**kw):
    c = dict(Alphabet={45, 47, 97, 98}, MaxLen=3, MaxSet=2, PrefixLen=2, Delims={0, 47, 45, 97}, FsDomain=False,
             CfgName="plain", Shard=0, Shards=1, Markers=False, EmptySegs=False, MultiDead=False)
    c.update(kw)
    return c


def c03(tier, seed, work):
    rep = Report("C03", tier, seed)
    n = 3 if tier == "thorough" else 2
    common = dict(view=None, emit=None, tlc_workers=8, timeout=3000)
    # key-value backends: every key set x prefix x delimiter in {none,'/','-','a'} x V1/V2
    tour_stage(rep, work, "kv", "MC_List", list_consts(MaxSet=n), ["mem", "bolt"],
               invariants=["EmitInv", "ListExact"], **common)
    # three live keys over {/,a,b} (a common prefix standing for two keys followed by a plain key, and the like)
    tour_stage(rep, work, "kv-three-keys", "MC_List",
               list_consts(Alphabet={47, 97, 98}, MaxLen=3, MaxSet=3, PrefixLen=1, Delims={0, 47}),
               ["mem", "bolt"], invariants=["EmitInv"], **common)
    tour_stage(rep, work, "fs-three-keys", "MC_List",
               list_consts(Alphabet={47, 97, 98}, MaxLen=3, MaxSet=3, PrefixLen=1, Delims={0, 47}, FsDomain=True),
               ["multimem"], invariants=["EmitInv"], **common)
    # keys with an empty segment (a//b): legal on the key-value backends; prefixes up to a//
    tour_stage(rep, work, "kv-empty-segments", "MC_List",
               list_consts(Alphabet={47, 97, 98}, MaxLen=4, MaxSet=2, PrefixLen=3, Delims={0, 47}, EmptySegs=True),
               ["mem", "bolt"], invariants=["EmitInv", "ListExact"], **common)
    # fs backends: key sets inside the fs key domain, delimiter none or '/'
    tour_stage(rep, work, "fs", "MC_List", list_consts(MaxSet=n, FsDomain=True, Delims={0, 47}),
               ["multimem", "multios"], invariants=["EmitInv"], **common)
    tour_stage(rep, work, "single", "MC_List", list_consts(MaxSet=n, FsDomain=True, Delims={0, 47}, CfgName="single"),
               ["singlemem", "singleos"], invariants=["EmitInv"], **common)
    # the keys written and deleted before the live ones arrive go in one multi-object delete (a batch that empties a directory)
    tour_stage(rep, work, "fs-after-multi-delete", "MC_List", list_consts(MaxSet=2, FsDomain=True, Delims={0, 47}, MultiDead=True),
               ["multimem", "multios", "mem"], invariants=["EmitInv"], **common)
    tour_stage(rep, work, "single-after-multi-delete", "MC_List",
               list_consts(MaxSet=2, FsDomain=True, Delims={0, 47}, CfgName="single", MultiDead=True),
               ["singlemem", "singleos"], invariants=["EmitInv"], **common)
    # a listing that names a prefix, a delimiter and a marker / start-after / token at once: the marker before, inside
    # and beyond the prefix's range ("nothing else": nothing at or before the marker)
    tour_stage(rep, work, "mem-prefix-delimiter-marker", "MC_List",
               list_consts(MaxSet=2, MaxLen=3, PrefixLen=1, Delims={0, 47}, CfgName="mem", Markers=True),
               ["mem"], invariants=["EmitInv"], **common)
    # listings of a versioned bucket in which keys are delete-marked (first, middle or last of their group)
    tour_stage(rep, work, "versioned-delete-marked-keys", "MC_Store",
               store_consts(Buckets={"bkt1"}, KeySetName="nest", CfgName="memenabled", Bodies={"x1"}, MaxVids=5, Ghosts=False,
                            OpNames={"PutObject", "DeleteObject", "ListObjects"}),
               ["mem"], small=True)
    # the Go API path: Backend.ListBucket called directly
    tour_stage(rep, work, "go-api-kv", "MC_List", list_consts(MaxSet=n), ["mem", "bolt"], invariants=["EmitInv"], addr="api", **common)
    tour_stage(rep, work, "go-api-fs", "MC_List", list_consts(MaxSet=n, FsDomain=True, Delims={0, 47}),
               ["multimem", "multios"], invariants=["EmitInv"], addr="api", **common)
    tour_stage(rep, work, "go-api-single", "MC_List", list_consts(MaxSet=n, FsDomain=True, Delims={0, 47}, CfgName="single"),
               ["singlemem", "singleos"], invariants=["EmitInv"], addr="api", **common)
    # keys with dot-leading segments (.a, a/.b, .a/b): legal keys that look like hidden files to an fs backend
    tour_stage(rep, work, "dot-segments", "MC_List",
               list_consts(Alphabet={46, 47, 97}, MaxSet=2, MaxLen=3, PrefixLen=1, FsDomain=True, Delims={0, 47}),
               ["multimem", "multios", "mem"], invariants=["EmitInv"], **common)
    tour_stage(rep, work, "dot-segments-single", "MC_List",
               list_consts(Alphabet={46, 47, 97}, MaxSet=2, MaxLen=3, PrefixLen=1, FsDomain=True, Delims={0, 47}, CfgName="single"),
               ["singlemem"], invariants=["EmitInv"], **common)
    # richer keys (UTF-8, blanks, characters needing URL escaping) through an
    # order- and structure-preserving substitution of the key bytes
    tour_stage(rep, work, "kv-rich", "MC_List", list_consts(MaxSet=2, MaxLen=2, Delims={0, 47}), ["mem", "bolt", "multimem"],
               keys="rich", invariants=["EmitInv"], **common)
    # ... and with characters drawn per key set from a pool of unusual but legal ones (incl. 4-byte UTF-8)
    tour_stage(rep, work, "kv-odd-characters", "MC_List", list_consts(MaxSet=2, MaxLen=3, Delims={0, 47}), ["mem", "bolt"],
               keys="rich3", invariants=["EmitInv"], **common)
    tour_stage(rep, work, "fs-odd-characters", "MC_List", list_consts(MaxSet=2, MaxLen=3, Delims={0, 47}, FsDomain=True),
               ["multimem", "multios"], keys="rich3", invariants=["EmitInv"], **common)
    rep.assumptions += [
        "keys neither start nor end with the delimiter, prefixes do not start with it (the property's domain)",
        "fs backends: no key is a directory of another key, no empty path segments (DESIGN 5.3)",
        "every bucket content is reached by: write+delete of two dead keys, write of every live key, overwrite in reverse order",
    ]
    return rep


def c04(tier, seed, work):
    rep = Report("C04", tier, seed)
    n = 3 if tier == "thorough" else 2
    # paginating backend: every key set (incl. shared common prefixes) x prefix x delimiter x
    # max-keys 1..n+1 x V1/V2, following the server's continuation
    walk_stage(rep, work, "mem-walks", "MC_List", list_consts(MaxSet=n, MaxLen=3, PrefixLen=1, Delims={0, 47}),
               ["mem"], "objects", invariants=["EmitInv"], view=None, emit=None, tlc_workers=8)
    # the same walks with keys that need URL escaping / are not ASCII, and with keys whose bytes make the
    # continuation tokens contain the characters in which base64 alphabets differ
    for km in ("rich", "rich2", "rich3"):
        walk_stage(rep, work, "mem-walks-" + km, "MC_List", list_consts(MaxSet=2, MaxLen=2, PrefixLen=1, Delims={0, 47}),
                   ["mem"], "objects", invariants=["EmitInv"], view=None, emit=None, tlc_workers=8, keys=km)
    # more than 1000 keys: the default page limit decides (no max-keys at all, 1000, 999, 400), on the paginating
    # backend and on the fallback path (which must deliver everything at once)
    scale_stage(rep, work, "scale-objects", "objects", ["mem", "bolt", "multimem"])
    # single pages under arbitrary markers (present, absent, inside a common prefix, beyond the end):
    # keys after the marker exactly; a common prefix the marker falls inside is optional
    tour_stage(rep, work, "mem-markers", "MC_List",
               list_consts(MaxSet=3 if tier == "thorough" else 2, MaxLen=3, PrefixLen=1, Delims={0, 47}, CfgName="mem", Markers=True),
               ["mem"], invariants=["EmitInv"], view=None, emit=None, tlc_workers=8)
    tour_stage(rep, work, "go-api-mem-markers", "MC_List",
               list_consts(MaxSet=2, MaxLen=3, PrefixLen=1, Delims={0, 47}, CfgName="mem", Markers=True),
               ["mem"], invariants=["EmitInv"], view=None, emit=None, tlc_workers=8, addr="api")
    # fallback path of the non-paginating backends: complete listing, IsTruncated=false
    walk_stage(rep, work, "fallback-walks", "MC_List",
               list_consts(MaxSet=2, MaxLen=2, PrefixLen=1, Delims={0, 47}, FsDomain=True),
               ["bolt", "multimem", "multios"], "objects", invariants=["EmitInv"], view=None, emit=None, tlc_workers=8)
    # the same with the unimplemented-page option: every listing is refused with NotImplemented
    tour_stage(rep, work, "pageerr", "MC_Store",
               store_consts(Buckets={"bkt1"}, CfgName="plainerr", Ghosts=False,
                            OpNames={"CreateBucket", "PutObject", "DeleteObject", "ListObjects", "GetObject"}),
               ["bolt", "multimem", "singlemem"] if False else ["bolt", "multimem"], opts="pageerr")
    # delete-marked keys: walks over the object listing of versioned histories
    walk_stage(rep, work, "mem-dm-walks", "MC_Store",
               store_consts(Buckets={"bkt1"}, KeySetName="nest2", CfgName="mem", Bodies={"x1"},
                            MaxVids=3 if tier == "thorough" else 2, Ghosts=False,
                            OpNames={"CreateBucket", "PutObject", "DeleteObject", "PutVersioning"}),
               ["mem"], "objects", emit=None, invariants=["EmitState"])
    # three keys, one of them delete-marked between live ones (marker keys at page boundaries)
    walk_stage(rep, work, "mem-dm-3k-walks", "MC_Store",
               store_consts(Buckets={"bkt1"}, KeySetName="nest", CfgName="memenabled", Bodies={"x1"},
                            MaxVids=5 if tier == "thorough" else 4, Ghosts=False,
                            OpNames={"PutObject", "DeleteObject"}),
               ["mem"], "objects", emit=None, invariants=["EmitState"])
    # a group of three keys followed by a plain key, any of them delete-marked (a page that ends on the group's prefix)
    walk_stage(rep, work, "mem-dm-group-walks", "MC_Store",
               store_consts(Buckets={"bkt1"}, KeySetName="nest3", CfgName="memenabled", Bodies={"x1"}, MaxVids=5, Ghosts=False,
                            OpNames={"PutObject", "DeleteObject"}),
               ["mem"], "objects", emit=None, invariants=["EmitState"])
    rep.assumptions += [
        "a walk follows the server's continuation: NextMarker (or the last key when absent) for V1, "
        "NextContinuationToken for V2; arbitrary start-after/marker values are single-page tours",
        "a common prefix that an arbitrary marker falls inside may or may not be reported (DESIGN 5.2)",
    ]
    return rep


def c13(tier, seed, work):
    rep = Report("C13", tier, seed)
    thorough = tier == "thorough"
    # single-page version listings after every mutating transition of the versioned model
    # (the audit of each tour lists all versions and reads each by id)
    tour_stage(rep, work, "ver-2k-audit", "MC_Store",
               store_consts(Buckets={"bkt1"}, KeySetName="nest2", CfgName="mem", Bodies={"x1"},
                            MaxVids=3 if thorough else 2, Ghosts=False,
                            OpNames={"CreateBucket", "PutObject", "DeleteObject", "PutVersioning",
                                     "DeleteObjectVersion", "ListVersions"}),
               ["mem"], invariants=VER_INVS, properties=STORE_PROPS, small=True)
    # never-versioned buckets report the id 'null'; non-versioned front end refuses
    tour_stage(rep, work, "never-versioned", "MC_Store",
               store_consts(Buckets={"bkt1"}, KeySetName="nest2", CfgName="mem", Ghosts=False,
                            OpNames={"CreateBucket", "PutObject", "DeleteObject", "ListVersions"}),
               ["mem"], small=True)
    # paging: walks with the key/version markers the server returns
    walk_stage(rep, work, "version-walks", "MC_Store",
               store_consts(Buckets={"bkt1"}, KeySetName="nest2", CfgName="mem", Bodies={"x1"},
                            MaxVids=3 if thorough else 2, Ghosts=False,
                            OpNames={"CreateBucket", "PutObject", "DeleteObject", "PutVersioning",
                                     "DeleteObjectVersion"}),
               ["mem"], "versions", emit=None, invariants=["EmitState"])
    # the same on differently configured in-memory backends: a negative version seed, clocks that stand still
    for tag, o in (("negative-version-seed", "negseed"), ("fixed-clock", "fixedclock")):
        walk_stage(rep, work, "version-walks-" + tag, "MC_Store",
                   store_consts(Buckets={"bkt1"}, KeySetName="nest2", CfgName="mem", Bodies={"x1"}, MaxVids=2, Ghosts=False,
                                OpNames={"CreateBucket", "PutObject", "DeleteObject", "PutVersioning"}),
                   ["mem"], "versions", emit=None, invariants=["EmitState"], opts=o)
    # the same with unusual characters in the keys and prefixes cut inside them
    walk_stage(rep, work, "version-walks-odd-characters", "MC_Store",
               store_consts(Buckets={"bkt1"}, KeySetName="nest2", CfgName="mem", Bodies={"x1"}, MaxVids=2, Ghosts=False,
                            OpNames={"CreateBucket", "PutObject", "DeleteObject", "PutVersioning"}),
               ["mem"], "versions", emit=None, invariants=["EmitState"], keys="rich3")
    # more than 1000 versions of one key: the default page limit decides
    scale_stage(rep, work, "scale-versions", "versions", ["mem"])
    rep.assumptions += [
        "the order of versions inside one key is followed, not required",
        "walks take the unpaginated listing (itself compared with the specification by the audits) as the "
        "store content and require the pages to deliver exactly it",
    ]
    return rep


MP_OPS = {"CreateBucket", "Initiate", "UploadPart", "Complete", "Abort", "GetObject", "PutObject", "ListParts", "ListUploads"}


def c06(tier, seed, work):
    rep = Report("C06", tier, seed)
    thorough = tier == "thorough"
    st = dict(invariants=["TypeOK"], properties=STORE_PROPS)
    # one key, two concurrent uploads, parts {1,2} re-uploadable with two bodies, every part
    # list of <= 2 entries in any order over known and unknown numbers, correct and stale ETags
    tour_stage(rep, work, "mp-1k-2u", "MC_Store",
               store_consts(Buckets={"bkt1"}, KeySetName="a", Bodies={"x1"}, OpNames=MP_OPS - {"ListParts", "ListUploads"},
                            MaxUploads=2, Ghosts=False),
               ["mem", "bolt", "multimem"], small=True, **st)
    # direction B from inside the uploader: the repository's own tests with the uploader's state hooks on (TraceUp.tla)
    repotests_stage(rep, work, "repository-tests state trace:", which="uploader")
    # histories that continue after a refused completion (the refusal must leave nothing behind, seen or unseen);
    # the uploader's internal state is traced and validated as well
    tour_stage(rep, work, "mp-after-refusal", "MC_Store",
               store_consts(Buckets={"bkt1"}, KeySetName="a", Bodies={"x1"}, PartBodies={"p1", "p2"}, MaxUploads=1, MaxList=2,
                            Ghosts=False, AfterRefusal=True,
                            OpNames={"CreateBucket", "Initiate", "UploadPart", "UploadPartRefused", "Complete", "Abort", "GetObject"}),
               ["mem", "multimem"], small=True, memtrace=thorough, **st)
    if not thorough:
        # (quick tier: the traced variant with one part body)
        tour_stage(rep, work, "mp-after-refusal-traced", "MC_Store",
                   store_consts(Buckets={"bkt1"}, KeySetName="a", Bodies={"x1"}, PartBodies={"p1"}, MaxUploads=1, MaxList=2,
                                Ghosts=False, AfterRefusal=True,
                                OpNames={"CreateBucket", "Initiate", "UploadPart", "Complete", "Abort"}),
                   ["mem"], small=True, memtrace=True, **st)
    # beyond the small scope: one upload of 1003 parts (more than the listing page limit) completed with all of them
    conc_stage(rep, work, "scale-1003-parts", ["mem", "bolt", "multimem"], [1], runs=0, ops=0, keys=1, gated=False, big="multipart")
    # uploads pending on one key whose server-issued ids straddle a change of length (9|10, 99|100), completed and
    # aborted in between one another
    conc_stage(rep, work, "upload-ids-across-a-length-boundary", ["mem", "bolt", "multimem"], [1], runs=0, ops=0, keys=2,
               gated=False, big="idboundary")
    # with clocks that stand still (a re-uploaded part carries the same timestamp as the part it replaces)
    tour_stage(rep, work, "mp-fixed-clock", "MC_Store",
               store_consts(Buckets={"bkt1"}, KeySetName="a", Bodies={"x1"}, PartBodies={"p1", "p2"}, MaxUploads=1, MaxList=2,
                            Ghosts=False, OpNames={"CreateBucket", "Initiate", "UploadPart", "Complete", "Abort", "GetObject", "ListParts"}),
               ["mem", "multimem"], opts="fixedclock", small=True, **st)
    # multipart life cycle on keys that are not valid UTF-8
    tour_stage(rep, work, "mp-invalid-utf8-keys", "MC_Store",
               store_consts(Buckets={"bkt1"}, KeySetName="hostile5", Bodies={"x1"}, PartBodies={"p1"}, PartNums={1}, MaxUploads=1,
                            MaxList=1, Ghosts=False, OpNames={"CreateBucket", "Initiate", "UploadPart", "Complete", "Abort", "GetObject"}),
               ["mem", "multimem"], small=True, **st)
    # three part numbers with a gap, lists that skip an uploaded part in the middle
    tour_stage(rep, work, "mp-gaps", "MC_Store",
               store_consts(Buckets={"bkt1"}, KeySetName="a", Bodies={"x1"}, PartNums={1, 2, 5}, PartBodies={"p1"},
                            MaxUploads=1, MaxList=2, Ghosts=False,
                            OpNames={"CreateBucket", "Initiate", "UploadPart", "Complete", "GetObject"}),
               ["mem", "multimem"], small=True, **st)
    # versioned destination: completion returns a fresh version id
    tour_stage(rep, work, "mp-versioned", "MC_Store",
               store_consts(Buckets={"bkt1"}, KeySetName="a", Bodies={"x1"}, CfgName="mem", MaxVids=2, MaxUploads=1,
                            PartBodies={"p1"}, Ghosts=False,
                            OpNames={"CreateBucket", "PutVersioning", "Initiate", "UploadPart", "Complete",
                                     "GetObject", "GetObjectVersion"}),
               ["mem"], small=True, **st)
    if thorough:
        tour_stage(rep, work, "mp-3parts", "MC_Store",
                   store_consts(Buckets={"bkt1"}, KeySetName="a", Bodies={"x1"}, PartNums={1, 2, 5}, MaxList=3,
                                PartBodies={"p1", "p2"}, MaxUploads=1, Ghosts=False,
                                OpNames=MP_OPS - {"ListParts", "ListUploads", "PutObject"}),
                   ALL4, timeout=3000, **st)
        tour_stage(rep, work, "mp-2k", "MC_Store",
                   store_consts(Buckets={"bkt1"}, KeySetName="nest2", Bodies={"x1"}, PartBodies={"p1"}, MaxUploads=2,
                                Ghosts=False, OpNames=MP_OPS - {"ListParts", "ListUploads"}),
                   ALL4, small=True, timeout=3000, **st)
    rep.assumptions += [
        "a Complete request with an empty part list or a repeated part number is outside C06 (DESIGN 5.2)",
        "the ETag a later GET shows for a multipart-completed object is followed, not required",
        "when a part list is both out of order and names an unknown/stale part either refusal is admissible",
    ]
    return rep


def c14(tier, seed, work):
    rep = Report("C14", tier, seed)
    thorough = tier == "thorough"
    # single-page listings after every mutating step (audits list every upload's parts and every
    # bucket's uploads with and without delimiter)
    tour_stage(rep, work, "mp-lists", "MC_Store",
               store_consts(Buckets={"bkt1"}, KeySetName="nest2", Bodies={"x1"}, PartBodies={"p1", "p2"},
                            MaxUploads=2, MaxList=1, Ghosts=False, OpNames=MP_OPS - {"PutObject", "GetObject"}),
               ["mem", "bolt"], small=True, invariants=["TypeOK"])
    # three (thorough: four) uploads in flight on one key, any of them aborted or completed: the rest stay in
    # initiation order
    tour_stage(rep, work, "mp-lists-one-key", "MC_Store",
               store_consts(Buckets={"bkt1"}, KeySetName="a", Bodies={"x1"}, PartBodies={"p1"}, PartNums={1},
                            MaxUploads=4 if thorough else 3, MaxList=1, Ghosts=False,
                            OpNames={"CreateBucket", "Initiate", "UploadPart", "Complete", "Abort", "ListUploads"}),
               ["mem", "multimem"], small=True, invariants=["TypeOK"], memtrace=True)
    repotests_stage(rep, work, "repository-tests state trace:", which="uploader")
    # ListParts paging: part numbers with gaps, every max-parts, markers the server returns
    walk_stage(rep, work, "parts-walks", "MC_Store",
               store_consts(Buckets={"bkt1"}, KeySetName="a", PartNums={1, 2, 5} if not thorough else {1, 2, 3, 5},
                            PartBodies={"p1", "p2"}, MaxUploads=1, Ghosts=False,
                            OpNames={"CreateBucket", "Initiate", "UploadPart"}),
               ["mem"], "parts", emit=None, invariants=["EmitState"], maxextra=2)
    # ListMultipartUploads paging: several keys sharing a prefix, several uploads per key
    walk_stage(rep, work, "uploads-walks", "MC_Store",
               store_consts(Buckets={"bkt1"}, KeySetName="nest", MaxUploads=4 if thorough else 3, Ghosts=False,
                            OpNames={"CreateBucket", "Initiate", "Abort"}),
               ["mem"], "uploads", emit=None, invariants=["EmitState"])
    # the same with unusual characters in the keys and prefixes cut inside them
    walk_stage(rep, work, "uploads-walks-odd-characters", "MC_Store",
               store_consts(Buckets={"bkt1"}, KeySetName="nest", MaxUploads=3, Ghosts=False,
                            OpNames={"CreateBucket", "Initiate", "Abort"}),
               ["mem"], "uploads", emit=None, invariants=["EmitState"], keys="rich3")
    # more than 1000 parts (and part numbers up to 10000) / more than 1000 uploads: the default page limits decide
    scale_stage(rep, work, "scale-parts", "parts", ["mem"])
    scale_stage(rep, work, "scale-uploads", "uploads", ["mem"])
    rep.assumptions += [
        "ListMultipartUploads before any upload was initiated in the bucket is outside C14",
        "arbitrary numeric part-number markers are single-page tours: parts above the marker exactly",
    ]
    return rep


def c11(tier, seed, work):
    rep = Report("C11", tier, seed)
    n = 12 if tier == "thorough" else 6
    common = dict(view=None, emit=None, invariants=["EmitInv", "Sound"])
    tour_stage(rep, work, "ranges", "MC_Range", dict(N=n, CfgName="plain", LargeSizes=set(), Versions="none"), ALL4, **common)
    tour_stage(rep, work, "ranges-single", "MC_Range", dict(N=n, CfgName="single", LargeSizes=set(), Versions="none"), ["singlemem", "singleos"], **common)
    # ranges of objects met after a restart: the persistent backends reopened on their storage, and the single-bucket
    # backend restarted with an empty metadata store (objects without a metadata record, as files put into the served
    # directory by hand are)
    tour_stage(rep, work, "ranges-after-restart", "MC_Range", dict(N=n, CfgName="plain", LargeSizes=set(), Versions="none"), ["bolt", "multios"], reopen=True, **common)
    tour_stage(rep, work, "ranges-single-fresh-metadata", "MC_Range", dict(N=n, CfgName="single", LargeSizes=set(), Versions="none"), ["singlemem", "singleos"],
               opts="freshmeta", reopen=True, **common)
    # every range read from an OLDER version by its id, the current version being longer or shorter, or a delete marker
    for vs in ("older", "marker"):
        tour_stage(rep, work, "ranges-of-" + vs + "-version", "MC_Range", dict(N=n, CfgName="mem", LargeSizes=set(), Versions=vs),
                   ["mem"], **common)
    # beyond the small scope: an object of 3 MiB + 17 bytes, bounds at and around multiples of 1 MiB and around its end
    # (windows of exactly 1 and 2 MiB among them)
    tour_stage(rep, work, "ranges-large-object", "MC_Range", dict(N=n, CfgName="plain", LargeSizes={3 * 1048576 + 17}, Versions="none"),
               ALL4 if tier == "thorough" else ["mem", "multimem"], hworkers=4, **common)
    rep.assumptions += [
        "values >= 2^31 are one symbolic bound 'beyond the end' (objects are smaller); >= 2^63 is malformed",
        "multi-range headers: 416 or 501 (a clean refusal); whitespace variants: the correct 206 or 416; suffix 0 not generated",
    ]
    return rep


def c17(tier, seed, work):
    rep = Report("C17", tier, seed)
    length = 6 if tier == "thorough" else 5
    # every string over {a,z,0,9,-,.,A,_} up to `length`, plus lengths 1..70 and IP-like names
    tour_stage(rep, work, "names", "MC_Names", dict(Alphabet={97, 122, 48, 57, 45, 46, 65, 95}, L=length, Extra=True),
               ["mem", "bolt", "multimem"], view=None, emit=None, invariants=["EmitInv", "NameRule"], tlc_workers=8,
               timeout=3000, heap="8g")
    rep.assumptions += [
        "dotted-decimal names that are not canonical IPv4 addresses (octet > 255, leading zeros) may be accepted or refused",
    ]
    return rep


ROUTE_OPTS = {"path": "", "host": "hostbucket", "base1": "bases=s3.test", "base2": "bases=s3.test+s3.alt:9000",
              "basedots": "bases=.s3.test.", "hostandbase": "hostbucket,bases=s3.alt:9000",
              "overlap": "bases=test+s3.test", "overlap2": "bases=alt:9000+x.alt:9000+s3.alt:9000"}
ALL_OPS = CORE_OPS | {"GetLocation", "PostObject"}


def c16(tier, seed, work):
    rep = Report("C16", tier, seed)
    # (1) resolution table: every Host x path of the table under every option combination
    for name, opts in ROUTE_OPTS.items():
        # (the setup writes are addressed in the style the configuration understands)
        addr = {"host": "host:!s3.test", "hostandbase": "host:s3.alt:9000",
                "overlap": "plainhost:neutral.invalid", "overlap2": "plainhost:neutral.invalid"}.get(name, "")
        tour_stage(rep, work, "resolve-" + name, "MC_Route", dict(CfgName=name), ["mem", "bolt"], opts=opts, addr=addr,
                   view=None, emit=None, invariants=["EmitInv", "Equiv"])
    # (2) every operation and sub-resource: the store, versioning and multipart tours replayed with
    # virtual-host addressing (and with extra slashes), expecting exactly the path-style replies
    modes = [("hostbucket", "host:!s3.test"), ("bases=s3.test+s3.alt:9000", "host:s3.alt:9000"),
             ("bases=s3.test", "host:s3.test"), ("", "slashes"), ("bases=s3.test", "slashes"),
             ("bases=test+s3.test", "host:!s3.test"),
             # three bases, consecutive requests through them in turn, the last-configured one first
             ("bases=s3.test+s3.alt:9000+s5.test", "host:s5.test,s3.test,s3.alt:9000")]
    # keys with '+', '=', '?', '#', blanks and non-ASCII characters, the request line spelled with a non-canonical
    # escaping (net/http then fills URL.RawPath): virtual-host and path style must address the same objects
    for opts, addr in (("bases=s3.test", "host:s3.test+rawpath"), ("hostbucket", "host:!s3.test+rawpath"), ("", "+rawpath")):
        tour_stage(rep, work, "store-rich-keys " + (opts or "path") + "/" + addr, "MC_Store",
                   store_consts(Buckets={"bkt1"}, KeySetName="list", Bodies={"x1"}, Ghosts=False,
                                OpNames={"CreateBucket", "PutObject", "GetObject", "HeadObject", "DeleteObject", "CopyObject", "ListObjects"}),
                   ["mem", "bolt"], opts=opts, addr=addr, keys="rich", small=True)
    # a query parameter that means something on a bucket only (?location) riding along on every object-level request
    for opts, addr in (("", "+q=location"), ("hostbucket", "host:!s3.test+q=location"), ("bases=s3.test", "host:s3.test+q=location")):
        tour_stage(rep, work, "bucket-level-query-on-objects " + (opts or "path") + "/" + addr, "MC_Store",
                   store_consts(Buckets={"bkt1"}, KeySetName="nest2", Bodies={"x1"}, Ghosts=False,
                                OpNames={"CreateBucket", "PutObject", "GetObject", "HeadObject", "DeleteObject", "ListObjects"}),
                   ["mem", "multimem"], opts=opts, addr=addr, small=True)
    # a bucket whose name is longer than any Host header in use, every operation kind incl. multipart, path-style and
    # host-style under each routing option
    longb = "a-bucket-with-quite-a-long-name-0123456789"
    for opts, addr in (("bases=s3.test", ""), ("bases=s3.test", "host:s3.test"), ("hostbucket", "host:!s3.test"), ("", "")):
        tour_stage(rep, work, "long-bucket-name " + (opts or "path") + "/" + (addr or "path-style"), "MC_Store",
                   store_consts(Buckets={longb}, KeySetName="a", Bodies={"x1"}, PartBodies={"p1"}, PartNums={1}, MaxUploads=1,
                                MaxList=1, Ghosts=False,
                                OpNames={"CreateBucket", "PutObject", "GetObject", "DeleteObject", "ListObjects", "Initiate",
                                         "UploadPart", "Complete", "Abort", "DeleteBucket"}),
                   ["mem", "multimem"], opts=opts, addr=addr, small=True)
    for opts, addr in modes:
        tag = (opts or "path") + "/" + addr
        tour_stage(rep, work, "store " + tag, "MC_Store",
                   store_consts(KeySetName="nest2", Bodies={"x1"}, OpNames=ALL_OPS, Ghosts=False),
                   ["mem", "multimem"], opts=opts, addr=addr, small=True)
        tour_stage(rep, work, "versions " + tag, "MC_Store",
                   store_consts(Buckets={"bkt1"}, KeySetName="a", CfgName="mem", Bodies={"x1"}, OpNames=VER_OPS,
                                MaxVids=2, Ghosts=False), ["mem"], opts=opts, addr=addr, small=True)
        tour_stage(rep, work, "multipart " + tag, "MC_Store",
                   store_consts(Buckets={"bkt1"}, KeySetName="a", Bodies={"x1"}, PartBodies={"p1"}, MaxUploads=1,
                                MaxList=2, Ghosts=False, OpNames=MP_OPS), ["mem"], opts=opts, addr=addr, small=True)
    rep.assumptions += [
        "host-style requests are derived from the path-style request of each tour step: Host=<bucket>.<base>, path=/<key>",
        "ListBuckets has no virtual-host form; it is sent to the base host itself",
        "raw (Host, path) probes run on the key-value backends, where keys are opaque",
    ]
    return rep


def c08(tier, seed, work):
    rep = Report("C08", tier, seed, level="model_checking")
    common = dict(view=None, emit=None, invariants=["EmitInv", "Unchanged"], tlc_workers=4)
    fp = {0, 1, 2, 3, 4}
    for integ in (True, False):
        tag = "integrity-on" if integ else "integrity-off"
        o = "" if integ else "nointegrity"
        tour_stage(rep, work, tag, "MC_Upload", dict(Integrity=integ, CfgName="plain", FailPoints=fp, LongKeys=True),
                   ["mem", "bolt", "multimem"], opts=o, **common)
        tour_stage(rep, work, tag + "-single", "MC_Upload", dict(Integrity=integ, CfgName="single", FailPoints=fp, LongKeys=True),
                   ["singlemem"], opts=o, **common)
        # real directories: keys of 1024 bytes are outside the key domain (metadata file name too long)
        tour_stage(rep, work, tag + "-os", "MC_Upload", dict(Integrity=integ, CfgName="plain", FailPoints=fp, LongKeys=False),
                   ["multios"], opts=o, **common)
        tour_stage(rep, work, tag + "-single-os", "MC_Upload", dict(Integrity=integ, CfgName="single", FailPoints=fp, LongKeys=False),
                   ["singleos"], opts=o, **common)
    # a small configured metadata limit
    tour_stage(rep, work, "metalimit-200", "MC_Upload", dict(Integrity=True, CfgName="plain", FailPoints=set(), LongKeys=True),
               ["mem", "multimem"], opts="metalimit=200", **common)
    # beyond the small scope: every attempt class with bodies of 1 MiB - 1, 1 MiB, 1 MiB + 1, 2 MiB and 5 MiB + 3
    tour_stage(rep, work, "large-bodies", "MC_Upload", dict(Integrity=True, CfgName="plain", FailPoints=fp, LongKeys=False),
               ALL4 if tier == "thorough" else ["mem", "multimem"], large=True, hworkers=8, **common)
    if tier == "thorough":
        tour_stage(rep, work, "big-bodies", "MC_Upload", dict(Integrity=True, CfgName="plain", FailPoints=fp, LongKeys=False), ALL4,
                   thorough=True, **common)
    rep.assumptions += [
        "metadata classes are 'well under' and 'twice' the limit: what exactly counts towards the limit is implementation-defined",
        "a body longer than its declared length is generated in process only (not expressible over TCP)",
        "when an attempt has several defects any of the corresponding refusals is admissible",
        "a failing body reader may be answered with any error status",
        "fs backends on a real directory: keys whose flattened metadata file name exceeds NAME_MAX are outside the key domain",
    ]
    return rep


def c12(tier, seed, work):
    rep = Report("C12", tier, seed)
    thorough = tier == "thorough"
    consts = dict(MaxChunk=3, MaxChunks=3 if thorough else 2, MaxFrag=4, MaxBuf=4)
    # small scale: every stream x fragment pattern x consumer-buffer pattern, decoder driven directly and end to end
    chunk_stage(rep, work, "small", dict(consts, MaxFrag=3, MaxBuf=3) if not thorough else consts, ["mem", "multimem"], [1], e2e_every=3)
    # scaled so that chunks straddle the consumers' buffers (32 KiB io.Copy on fs, one full-size read on mem/bolt)
    chunk_stage(rep, work, "scaled", dict(MaxChunk=3, MaxChunks=2, MaxFrag=3, MaxBuf=2),
                ALL4 + ["singlemem"] if thorough else ["mem", "bolt", "multimem", "multios"], [11000] if not thorough else [11000, 350000],
                e2e_every=4 if not thorough else 2)
    # beyond the small scope: chunks of 1 MiB and more (one unit = 1 MiB / half a MiB + 1), which the key-value
    # backends read with a single full-size Read
    chunk_stage(rep, work, "scaled-1MiB", dict(MaxChunk=2, MaxChunks=2, MaxFrag=2, MaxBuf=2),
                ["mem", "bolt", "multimem"], [1 << 20, (1 << 19) + 1] if thorough else [1 << 20], e2e_every=2 if thorough else 3)
    rep.assumptions += [
        "cosmetic framing deviations the decoder tolerates (signature text, bytes after a chunk, missing final chunk) are not 'malformed'",
        "fragment and buffer sizes follow cyclic patterns of length <= 2; the state-machine model covers all fragmentations at small scale",
    ]
    return rep


def c01(tier, seed, work):
    rep = Report("C01", tier, seed)
    thorough = tier == "thorough"
    ops = {"CreateBucket", "PutObject", "PutMeta", "PutMetaB", "PostObject", "PostMeta", "CopyObject", "GetObject",
           "HeadObject", "ListObjects", "DeleteObject"}
    # copies that bring their own metadata: the destination gets it, the source keeps its own
    tour_stage(rep, work, "copy-with-metadata", "MC_Store",
               store_consts(Buckets={"bkt1"}, KeySetName="nest2", Bodies={"x1"}, Ghosts=False,
                            OpNames={"CreateBucket", "PutMetaB", "PutMeta", "CopyMeta", "CopyObject", "GetObject", "HeadObject"}),
               ALL4, small=True, invariants=STORE_INVS, properties=["ReadYourWrite", "Frame"])
    # overwrites whose metadata headers carry empty values (the acknowledged, empty, value is what reads return), and
    # values that look like encoding markers (base64:..., percent escapes, MIME encoded-words, JSON)
    tour_stage(rep, work, "empty-metadata-values", "MC_Store",
               store_consts(Buckets={"bkt1"}, KeySetName="a", Bodies={"x1"}, Ghosts=False,
                            OpNames={"CreateBucket", "PutMetaB", "PutMeta", "PutMetaE", "PutMetaF", "PostMeta", "CopyObject", "GetObject",
                                     "HeadObject"}),
               ALL4, small=True, invariants=STORE_INVS, properties=["ReadYourWrite", "Frame"])
    st = dict(invariants=STORE_INVS, properties=["ReadYourWrite", "Frame"])
    consts = store_consts(Buckets={"bkt1"}, KeySetName="nest2", Bodies={"x1", "x2"}, WithEmpty=True, OpNames=ops, Ghosts=False)
    for integ, o in ((True, ""), (False, "nointegrity")):
        tag = "on" if integ else "off"
        tour_stage(rep, work, "rw-plain-" + tag, "MC_Store", consts, ALL4, opts=o, keys="plain", thorough=thorough, **st)
        tour_stage(rep, work, "rw-rich-" + tag, "MC_Store", consts, ALL4, opts=o, keys="rich", thorough=thorough, **st)
        tour_stage(rep, work, "rw-single-" + tag, "MC_Store",
                   dict(consts, CfgName="single", OpNames=ops - {"CreateBucket"}), ["singlemem", "singleos"], opts=o,
                   keys="both", thorough=thorough, **st)
    # beyond the small scope: bodies around 1 MiB, of 5 and 8 MiB, and (key-value backends, which buffer whole bodies)
    # of 33 and 64 MiB + 4 KiB -- written, read, HEADed, copied; validated by TraceConc
    conc_stage(rep, work, "scale-bodies", ["mem", "bolt", "multimem", "multios", "singlemem"], [1], runs=0, ops=0, keys=1,
               gated=False, big="huge")
    conc_stage(rep, work, "scale-bodies-64MiB", ["mem", "bolt"], [1], runs=0, ops=0, keys=1, gated=False, big="huge64")
    # keys that flatten to the same metadata file name on the fs backends must keep their own ETag and metadata
    tour_stage(rep, work, "rw-colliding-keys", "MC_Store",
               store_consts(Buckets={"bkt1"}, KeySetName="coll", Bodies={"x1", "x2"}, Ghosts=False,
                            OpNames={"CreateBucket", "PutMeta", "PutMetaB", "GetObject", "HeadObject", "DeleteObject", "ListObjects"}),
               ALL4, small=True, **st)
    rep.assumptions += [
        "bodies: one concrete byte string per (atom, tour) drawn from size classes 1 B .. 64 KiB+1 (thorough: .. 3 MiB), all byte values; "
        "the empty body is enumerated; 'all bodies' is sampled per class, the structural dimension is enumerated",
        "returned metadata must include what was sent; additional carried-over metadata is followed, not required",
        "the ETag a GET shows for multipart-completed objects is not covered here (C06 pins the completion ETag)",
    ]
    return rep


def c15(tier, seed, work):
    rep = Report("C15", tier, seed)
    st = dict(invariants=STORE_INVS, properties=STORE_PROPS)
    # clean restart: after every mutating transition of the store model the backend is closed, a new
    # one is constructed on the same storage, and the whole observable state is audited
    tour_stage(rep, work, "reopen-2b-2k", "MC_Store", store_consts(OpNames=CORE_OPS),
               ["bolt", "multios"], opts="boltsync", reopen=True, **st)
    tour_stage(rep, work, "reopen-single", "MC_Store",
               store_consts(CfgName="single", OpNames=(CORE_OPS | {"PutMetaB"}) - {"ListBuckets"}),
               ["singleos"], reopen=True, **st)
    tour_stage(rep, work, "reopen-rich-empty", "MC_Store",
               store_consts(Buckets={"bkt1"}, WithEmpty=True, OpNames=CORE_OPS | {"PutMetaB", "PostObject"}),
               ["bolt", "multios"], opts="boltsync", keys="rich", reopen=True, **st)
    # the single-bucket backend restarted with an empty metadata store (its default configuration keeps metadata in
    # memory): every object is then met without a record, exactly as files put into the served directory by hand
    tour_stage(rep, work, "reopen-single-fresh-metadata", "MC_Store",
               store_consts(CfgName="single", OpNames=CORE_OPS - {"ListBuckets"}),
               ["singleos", "singlemem"], opts="freshmeta", reopen=True, **st)
    # keys spelled with the bytes of their bucket's name (b, bkt1, 1/t), with metadata
    tour_stage(rep, work, "reopen-bucket-named-keys", "MC_Store",
               store_consts(Buckets={"bkt1"}, KeySetName="bname", Bodies={"x1"}, OpNames=CORE_OPS | {"PutMetaB"}),
               ["bolt", "multios"], opts="boltsync", reopen=True, **st)
    tour_stage(rep, work, "reopen-bucket-named-keys-single", "MC_Store",
               store_consts(Buckets={"bkt1"}, KeySetName="bname", Bodies={"x1"}, CfgName="single",
                            OpNames=(CORE_OPS | {"PutMetaB"}) - {"ListBuckets"}),
               ["singleos"], reopen=True, **st)
    # keys that are not valid UTF-8, with metadata, across a restart
    tour_stage(rep, work, "reopen-invalid-utf8-keys", "MC_Store",
               store_consts(Buckets={"bkt1"}, KeySetName="hostile5", Bodies={"x1"},
                            OpNames={"CreateBucket", "PutMetaB", "GetObject", "HeadObject", "DeleteObject", "ListObjects"}),
               ["bolt", "multios"], opts="boltsync", reopen=True, **st)
    tour_stage(rep, work, "reopen-invalid-utf8-keys-single", "MC_Store",
               store_consts(Buckets={"bkt1"}, KeySetName="hostile5", Bodies={"x1"}, CfgName="single",
                            OpNames={"PutMetaB", "GetObject", "HeadObject", "DeleteObject", "ListObjects"}),
               ["singleos"], reopen=True, **st)
    # a restart BEFORE the last step of every history as well (the first request after a restart is a write, a delete,
    # a copy ... onto what the previous process left), then the restart before the audit
    tour_stage(rep, work, "reopen-before-last-step", "MC_Store", store_consts(Buckets={"bkt1"}, OpNames=CORE_OPS | {"PutMetaB"}),
               ["bolt", "multios"], opts="boltsync,reopenmid", reopen=True, **st)
    tour_stage(rep, work, "reopen-before-last-step-single", "MC_Store",
               store_consts(Buckets={"bkt1"}, CfgName="single", OpNames=(CORE_OPS | {"PutMetaB"}) - {"ListBuckets"}),
               ["singleos"], opts="reopenmid", reopen=True, **st)
    # keys named like the fs backends' own scratch files, across a restart
    tour_stage(rep, work, "reopen-scratch-file-names", "MC_Store",
               store_consts(Buckets={"bkt1"}, KeySetName="hostile4", Bodies={"x1"},
                            OpNames={"CreateBucket", "PutObject", "GetObject", "DeleteObject", "ListObjects"}),
               ["bolt", "multios"], opts="boltsync", reopen=True, **st)
    tour_stage(rep, work, "reopen-scratch-file-names-single", "MC_Store",
               store_consts(Buckets={"bkt1"}, KeySetName="hostile4", Bodies={"x1"}, CfgName="single",
                            OpNames={"PutObject", "GetObject", "DeleteObject", "ListObjects"}),
               ["singleos", "singlemem"], reopen=True, **st)
    # crash points: every mutating transition killed at each of its mutating file-system calls
    crash_stage(rep, work, "crash-multi", store_consts(Buckets={"bkt1"}, OpNames=CORE_OPS - {"ListBuckets", "HeadBucket"}),
                ["multimem", "multios"])
    crash_stage(rep, work, "crash-single",
                store_consts(Buckets={"bkt1"}, CfgName="single", OpNames=CORE_OPS - {"ListBuckets", "HeadBucket", "CreateBucket", "DeleteBucket"}),
                ["singlemem", "singleos"])
    if tier == "thorough":
        # the real cmd/gofakes3 binary under load, killed with SIGKILL at seeded instants and restarted on the same
        # storage; the recorded history (with crash events) is validated by TraceConc
        conc_stage(rep, work, "kill-9-bolt", ["bolt"], [2], runs=12, ops=0, keys=3, gated=False, kill_rounds=5)
        conc_stage(rep, work, "kill-9-fs", ["fs", "directfs"], [2], runs=6, ops=0, keys=3, gated=False, kill_rounds=4)
    rep.assumptions += [
        "clean restart = Close() of the bolt file / dropping the fs backend object, then constructing a new backend on the same file or directory",
    ]
    return rep


def c07(tier, seed, work):
    rep = Report("C07", tier, seed)
    thorough = tier == "thorough"
    core.build_harness(race=True)
    allsys = ["mem", "bolt", "multimem", "multios", "singlemem"]
    # 2-4 clients on 2 keys (incl. versioned buckets and multipart on s3mem) + every slow-uploader / slow-reader
    # scenario; exact (breadth-first) linearizability check of every history
    conc_stage(rep, work, "small-exact", allsys, [2, 3, 4], runs=6 if thorough else 3, ops=12, keys=2, gated=True)
    # every interleaving (at the granularity of the calls made on the backend and of the first body write of a
    # download) of small programs: 2-4 clients, 1-2 operations each, 1-2 keys, versioned and multipart included
    conc_stage(rep, work, "all-schedules", allsys, [2, 3, 4] if thorough else [2, 3], runs=0, ops=0, keys=2, gated=False,
               sched="thorough" if thorough else "quick", timeout=2400)
    # the front end's own step structure (existence check / auto-creation / call): atomic on the model without the
    # auto-bucket option; with it the design is not (F35) -- the code is held to the stepwise design under every schedule
    core.frontend_stage(rep, work, "front-end-steps", ["mem", "bolt", "multimem"] + (["multios"] if thorough else []))
    # a part uploaded again (large body: looked up, hashed for milliseconds, stored) while a completion naming the old
    # ETags validates and assembles: sweep over the relative start of the two requests
    conc_stage(rep, work, "part-reupload-vs-complete", allsys if thorough else ["mem", "multimem"], [2], runs=0, ops=0, keys=1,
               gated=False, partrace=64 if thorough else 40)
    # the same under the Go race detector with more clients; first-witness (depth-first) search
    conc_stage(rep, work, "race-6-8", ["mem", "bolt", "multimem"], [6, 8], runs=3 if thorough else 2, ops=8, keys=3,
               gated=False, race=True, witness=True)
    # many clients, single-key operations only: decided key by key (linearizability is local), under the race detector
    conc_stage(rep, work, "race-16-per-key", allsys, [12, 16], runs=4 if thorough else 1, ops=8 if thorough else 5, keys=3,
               gated=False, race=True, witness=True, local=True)
    if thorough:
        conc_stage(rep, work, "race-12", allsys, [10, 12], runs=2, ops=4, keys=3, gated=False, race=True, witness=True)
        for s2 in range(3):
            rep.seed = seed + 100 + s2
            conc_stage(rep, work, "small-exact-seed%d" % s2, allsys, [2, 3, 4], runs=6, ops=14, keys=2, gated=True)
        rep.seed = seed
    rep.assumptions += [
        "the data-race and deadlock clauses are observed (Go race detector, request deadlines) while histories are recorded; "
        "linearizability, torn reads, lost updates are decided by TLC on the recorded histories",
        "copy is modelled as two linearization points (read source, write destination), as the code performs it",
        "histories with more than 4 clients are checked by first-witness search; an undecided history is counted inconclusive, never a violation",
        "histories of 12-16 clients use single-key operations only and are decided per key (locality of linearizability)",
    ]
    return rep


def c09(tier, seed, work):
    rep = Report("C09", tier, seed)
    thorough = tier == "thorough"
    g = dict(FullPaths=thorough)
    ev = 1 if thorough else 8
    # every request of the grammar against the versioned store with delete markers, a deleted current version and pending uploads
    fuzz_stage(rep, work, "grammar-mem", g, ["mem"], ["rich"], every=1)
    fuzz_stage(rep, work, "grammar-fs-bolt", g, ["multimem", "bolt", "singlemem"], ["rich"], every=ev)
    fuzz_stage(rep, work, "grammar-options", g, ["mem"], ["rich"], opts="hostbucket", every=ev * 2)
    fuzz_stage(rep, work, "grammar-auto", g, ["mem", "multimem"], ["plain"], opts="auto", every=ev * 2)
    fuzz_stage(rep, work, "grammar-noversioning", g, ["mem"], ["rich"], opts="noversioning", every=ev * 2)
    # with the time-skew limit in force (requests carrying a far-off or malformed x-amz-date)
    fuzz_stage(rep, work, "grammar-skew", g, ["mem"], ["rich"], opts="skew", every=ev * 2)
    if thorough:
        fuzz_stage(rep, work, "grammar-os", g, ["multios", "singlemem"], ["rich"], every=2)
    rep.assumptions += [
        "requests are generated from the abstract grammar (method x path shape x routed sub-resources, one further dimension "
        "varied per request); coverage-guided byte-level fuzzing is not part of this check",
        "panics and hangs are observations recorded into the trace; the specification (TraceReq) decides admissibility of replies",
        "MethodNotAllowed may be answered with 400 (gofakes3's table) or 405",
    ]
    return rep


def c10(tier, seed, work):
    rep = Report("C10", tier, seed)
    st = dict(invariants=STORE_INVS, properties=["Frame", "RejectedUnchanged"])
    ops = {"CreateBucket", "PutObject", "GetObject", "HeadObject", "DeleteObject", "DeleteMulti", "CopyObject", "ListObjects"}
    # hostile but canonical keys, two buckets, every operation kind, full audit of both buckets after each step
    for ks in ("hostile1", "hostile2", "hostile3"):
        tour_stage(rep, work, "keys-" + ks, "MC_Store",
                   store_consts(KeySetName=ks, Bodies={"x1"}, OpNames=ops - {"CopyObject"} if ks != "hostile1" else ops, Ghosts=False),
                   ALL4, small=True, **st)
    tour_stage(rep, work, "keys-single", "MC_Store",
               store_consts(KeySetName="hostile2", Bodies={"x1"}, CfgName="single", OpNames=ops - {"CreateBucket"}, Ghosts=False),
               ["singlemem", "singleos"], small=True, **st)
    # keys that differ only in '/', '_' and '\\' (the fs backends flatten them into one metadata file name, kept apart by
    # a hash of the key): each keeps its own body, ETag and metadata through writes and deletes of the others
    tour_stage(rep, work, "keys-flattening-to-one-name", "MC_Store",
               store_consts(Buckets={"bkt1"}, KeySetName="coll", Bodies={"x1", "x2"}, Ghosts=False,
                            OpNames={"CreateBucket", "PutMeta", "PutMetaB", "GetObject", "HeadObject", "DeleteObject", "ListObjects"}),
               ALL4, small=True, **st)
    tour_stage(rep, work, "keys-flattening-to-one-name-single", "MC_Store",
               store_consts(Buckets={"bkt1"}, KeySetName="coll", Bodies={"x1", "x2"}, CfgName="single", Ghosts=False,
                            OpNames={"PutMeta", "PutMetaB", "GetObject", "HeadObject", "DeleteObject", "ListObjects"}),
               ["singlemem", "singleos"], small=True, **st)
    # the names the fs backends give their own scratch files (upload temp file, mtime probe) are legal keys
    ops4 = {"CreateBucket", "PutObject", "PutRefused", "GetObject", "DeleteObject", "ListObjects", "DeleteBucket"}
    tour_stage(rep, work, "keys-scratch-file-names", "MC_Store",
               store_consts(Buckets={"bkt1"}, KeySetName="hostile4", Bodies={"x1", "x2"} if tier == "thorough" else {"x1"}, OpNames=ops4),
               ALL4, small=True, **st)
    tour_stage(rep, work, "keys-scratch-file-names-single", "MC_Store",
               store_consts(Buckets={"bkt1"}, KeySetName="hostile4", Bodies={"x1", "x2"} if tier == "thorough" else {"x1"}, CfgName="single",
                            OpNames=ops4 - {"CreateBucket", "DeleteBucket"}),
               ["singlemem", "singleos"], small=True, **st)
    # long keys identical in their first 260 bytes (one path segment longer than NAME_MAX) keep their own content and
    # metadata and can be deleted (not on a real directory, which cannot hold such names)
    tour_stage(rep, work, "keys-long-shared-prefix", "MC_Store",
               store_consts(Buckets={"bkt1"}, KeySetName="longshared", Bodies={"x1", "x2"},
                            OpNames={"CreateBucket", "PutMeta", "PutMetaB", "GetObject", "HeadObject", "DeleteObject", "ListObjects"}),
               ["mem", "bolt", "multimem"], small=True, **st)
    tour_stage(rep, work, "keys-long-shared-prefix-single", "MC_Store",
               store_consts(Buckets={"bkt1"}, KeySetName="longshared", Bodies={"x1", "x2"}, CfgName="single",
                            OpNames={"PutMeta", "PutMetaB", "GetObject", "HeadObject", "DeleteObject", "ListObjects"}),
               ["singlemem"], small=True, **st)
    # keys that are not valid UTF-8 (gofakes3 stores byte strings): each keeps its own content and metadata
    tour_stage(rep, work, "keys-invalid-utf8", "MC_Store",
               store_consts(Buckets={"bkt1"}, KeySetName="hostile5", Bodies={"x1"},
                            OpNames={"CreateBucket", "PutMeta", "PutMetaB", "GetObject", "HeadObject", "DeleteObject", "ListObjects"}),
               ALL4, small=True, **st)
    tour_stage(rep, work, "keys-invalid-utf8-single", "MC_Store",
               store_consts(Buckets={"bkt1"}, KeySetName="hostile5", Bodies={"x1"}, CfgName="single",
                            OpNames={"PutMeta", "PutMetaB", "GetObject", "HeadObject", "DeleteObject", "ListObjects"}),
               ["singlemem", "singleos"], small=True, **st)
    # keys that are the directory of a stored key: read and deleted like any missing key, the stored keys untouched
    tour_stage(rep, work, "directory-keys", "MC_Store",
               store_consts(Buckets={"bkt1"}, KeySetName="dirkey", Bodies={"x1"},
                            OpNames={"CreateBucket", "PutObject", "GetObject", "HeadObject", "DeleteObject", "DeleteMulti", "ListObjects"}),
               ["multimem", "multios"], small=True, **st)
    # keys with '.', '..' and empty segments are distinct byte strings on the key-value backends
    tour_stage(rep, work, "keys-dots-kv", "MC_Store",
               store_consts(Buckets={"bkt1"}, KeySetName="dots", Bodies={"x1"}, OpNames=ops - {"CopyObject", "DeleteMulti"}, Ghosts=False),
               ["mem", "bolt"], small=True, **st)
    # keys that are prefixes of one another stay independent on the key-value backends (every delete and multi-delete subset)
    tour_stage(rep, work, "keys-prefix-kv", "MC_Store",
               store_consts(Buckets={"bkt1"}, KeySetName="list", Bodies={"x1"}, Ghosts=False,
                            OpNames={"CreateBucket", "PutObject", "GetObject", "DeleteObject", "DeleteMulti", "ListObjects"}),
               ["mem", "bolt"], small=True, **st)
    # the backends' own storage names are never buckets
    bad = {"_meta", ".", ".."}
    tour_stage(rep, work, "internal-names", "MC_Store",
               store_consts(Buckets={"bkt1"}, KeySetName="a", Bodies={"x1"}, BadBuckets=bad,
                            OpNames={"CreateBucket", "PutObject", "DeleteObject", "ListBuckets"}, Ghosts=False),
               ["mem", "bolt", "multimem", "multios"], small=True, **st)
    # ... not even with the auto-bucket option, which creates whatever bucket a request names (each backend with the
    # names that are internal to it; names that are merely invalid are auto-created, which no property forbids)
    for tag, sysl, names in (("bolt", ["bolt"], {"_meta"}), ("fs", ["multimem", "multios"], {".", ".."})):
        tour_stage(rep, work, "internal-names-auto-bucket-" + tag, "MC_Store",
                   store_consts(Buckets={"bkt1"}, KeySetName="a", Bodies={"x1"}, BadBuckets=names, CfgName="plainauto",
                                OpNames={"CreateBucket", "PutObject", "DeleteObject", "ListBuckets"}, Ghosts=False),
                   sysl, opts="auto", small=True, **st)
    # path-like keys ('..', './', '//', leading '/', paths into the other bucket or the metadata store): from every
    # reachable state of two buckets with canary objects, each operation kind with each such key; any complete
    # reply is admissible, but all canaries, the bucket list and the other bucket's listing must be unchanged
    tour_stage(rep, work, "escape-keys", "MC_Store",
               store_consts(KeySetName="a", Bodies={"x1"}, OpNames={"CreateBucket", "PutMeta"}, Ghosts=False),
               ["multimem", "multios", "mem", "bolt"], small=True, emit=None, invariants=["EmitEscape"])
    tour_stage(rep, work, "escape-keys-single", "MC_Store",
               store_consts(Buckets={"bkt1"}, KeySetName="a", Bodies={"x1"}, CfgName="single", OpNames={"PutMeta"}, Ghosts=False),
               ["singlemem", "singleos"], small=True, emit=None, invariants=["EmitEscape"])
    rep.assumptions += [
        "fs backends: keys with '.', '..' or empty path segments may be refused or aliased (tested separately for containment); "
        "key-value backends must keep all byte strings apart",
    ]
    return rep


PLANS = {"C11": c11, "C10": c10, "C09": c09, "C07": c07, "C15": c15, "C01": c01, "C12": c12, "C08": c08, "C16": c16, "C17": c17, "C02": c02, "C05": c05, "C03": c03, "C04": c04, "C13": c13, "C06": c06, "C14": c14}
