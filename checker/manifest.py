"""Regenerates /verif/MANIFEST.json from the table below."""
import json, os, subprocess

VERIF = os.path.dirname(os.path.dirname(os.path.abspath(__file__)))

CHECKS = {
 "C02": ("model_checking",
         "Every transition of the bounded S3 store model (2 buckets x 2-3 nested keys x 2 bodies, all bucket/object "
         "operations incl. multi-delete of every key subset, copy between every pair incl. self-copy; states refined by "
         "the set of deleted-and-absent keys) is emitted by TLC with a witness history, the reply S3!Step predicts and a "
         "spec-computed audit of the whole observable state, and replayed through the HTTP handler on mem, bolt, "
         "multi-fs (MemMapFs and a real directory) and the single-bucket backends, with and without auto-bucket.",
         "TLC transition tours of spec/MC_Store.tla replayed into the real backends through HTTP and through the "
         "Backend Go API; design properties (Frame, ReadYourWrite, RejectedUnchanged) checked as action properties on the "
         "model; state traces recorded inside s3mem while the repository's own tests run, validated by TLC (TraceMem.tla)",
         "S3!Step (spec/S3.tla) is the oracle; trusted: the harness's request builder, XML/headers projection and hashing; "
         "bodies sampled per size class"),
 "C03": ("model_checking",
         "TLC enumerates every key set of <=2 (thorough <=3) keys over {-,/,a,b} of length <=3, after a fixed put/delete/"
         "overwrite history, x every prefix of length <=2 x delimiter in {none,/,-,a} x V1/V2; the listing predicted by "
         "the operational definition (cross-checked against the declarative ListExact on every case) is compared with "
         "the parsed XML of every backend.",
         "exhaustive small-scope enumeration by TLC (spec/MC_List.tla), replayed; ListExact invariant",
         "keys/prefixes inside the property's domain; fs backends restricted to their key domain"),
 "C04": ("model_checking",
         "For every key set of the C03 enumeration (<=2/3 keys) x prefix x delimiter x max-keys 1..n+1 x V1/V2 the harness "
         "walks the listing following the server's continuation and TLC (spec/TraceWalk.tla) validates every recorded "
         "walk: page size, strict order, no skip/repeat, each common prefix once, IsTruncated=false only at the end, "
         "termination bound. Arbitrary markers and the non-paginating fallback (option on/off) are single-page tours.",
         "trace validation of recorded paginated walks by TLC (small scopes exhaustively; stores of 1050 keys with the "
         "server's default page limit, on the paginating and the fallback backends) + single-page marker tours",
         "walk store contents come from the specification's snapshot; continuation is whatever the server returns"),
 "C05": ("model_checking",
         "Every transition of one key's version history (<=2 version-creating steps with all operations, <=3 with the "
         "mutating ones; thorough: 3 with all, 2 keys) incl. status changes, version deletes, multi-delete with versions, "
         "reads by id, is replayed on s3mem through HTTP; after each mutating step all versions are re-read by id and the "
         "version listing is audited. NeverLost/FreshVid/UniqueVids hold on the model.",
         "TLC transition tours of the versioned store model replayed into s3mem (HTTP and VersionedBackend Go API); "
         "NeverLost, FreshVid action properties; s3mem state traces (hooks under the backend lock) of the repository's "
         "tests and of random version histories validated by TLC (TraceMem.tla)",
         "ids of null/hidden versions are never addressed; don't-care regions resolved to the code's choice for generation"),
 "C06": ("model_checking",
         "Every transition of the multipart model (1 key, 2 concurrent uploads, parts {1,2} re-uploadable with 2 bodies, "
         "every part list of <=2 entries in any order over known/unknown numbers with current/stale ETags; thorough: "
         "3 parts, lists <=3, 2 keys) replayed on mem, bolt, multi-fs; completion ETag computed from the part digests; "
         "audits re-read the object, the parts and the uploads after every step.",
         "TLC transition tours of the multipart model replayed; RejectedUnchanged action property; state traces of the "
         "uploader (hook) validated by TLC (TraceUp.tla) for the repository's tests and the tours after refusals; a "
         "1003-part upload completed and read back (TraceConc.tla)",
         "abstract part numbers mapped order-preservingly into 1..10000 with gaps"),
 "C13": ("model_checking",
         "Version listings are audited after every mutating transition of a 2-key versioned model (each version once, "
         "key order, exactly one IsLatest = the entry an unqualified read serves, sizes/ETags, 'null' ids for "
         "never-versioned buckets); for every reachable state x prefix/delimiter x max-keys 1..n+1 a walk with the "
         "server's key/version markers is recorded and validated by TLC (TraceWalk).",
         "TLC tours with version-listing audits + trace validation of recorded version-listing walks (small scopes "
         "exhaustively; a key with 1005 versions under the default page limit; a 70-version key at every small page size)",
         "order inside a key followed; walks compare against the (audited) unpaginated listing"),
 "C14": ("model_checking",
         "ListParts/ListMultipartUploads single pages are audited after every transition of the multipart model; for "
         "every reachable state (3 keys sharing a prefix, <=3-4 uploads; part numbers with gaps) x prefix/delimiter x "
         "page size 1..n+2 walks with the server-returned markers are recorded and validated by TLC (TraceWalk): exact "
         "order by key then initiation, true part numbers/sizes/ETags, each entry once.",
         "TLC tours with audits + trace validation of recorded walks (small scopes exhaustively; 1008 parts incl. part "
         "numbers to 10000 and 1006 uploads under the default page limits) + uploader state traces (TraceUp.tla)",
         "arbitrary (not server-returned) upload markers are outside the property"),
 "C11": ("model_checking",
         "For every object size 0..6 (thorough 0..12) TLC enumerates every closed/open/suffix range with bounds in "
         "0..N+2 and the boundary values 2^31-1, 2^31, 2^32, 2^63-2, 2^63-1, plus malformed, non-bytes-unit, multi-range and "
         "whitespace variants; S3Range!ByteRange predicts slice or InvalidRange; each is issued against every backend and the "
         "body, Content-Length and Content-Range compared. RangeSound holds on every case.",
         "exhaustive small-scope enumeration by TLC (spec/MC_Range.tla, S3Range.tla) replayed on every backend",
         "any 2xx status accepted for a satisfied range (the property pins bytes/Content-Length/Content-Range, not 206)"),
 "C16": ("model_checking",
         "S3Route!Resolve is evaluated by TLC on a table of 14 Host values x 18 paths under 6 option combinations and each "
         "(Host, path) is probed with GET and HEAD against stores holding distinguishable objects (incl. keys that look like "
         "bucket/key); RouteEquiv is an invariant. The store, versioning and multipart transition tours are replayed with "
         "virtual-host addressing under host-bucket and host-bucket-base options and with extra slashes, expecting the "
         "path-style replies.",
         "TLC-evaluated resolution table + transition tours replayed under addressing modes",
         "Location of CompleteMultipartUpload not compared"),
 "C17": ("model_checking",
         "TLC enumerates every string over {a,z,0,9,-,.,A,_} up to length 5 (thorough 6), all lengths 1..70, label-length "
         "boundaries and IPv4/IPv6-looking names; S3BucketName!ValidName (cross-checked against a second scan-based "
         "formulation, NameRule) predicts 200 or InvalidBucketName; each name is PUT to mem, bolt and multi-fs, then "
         "ListBuckets must show exactly the accepted names and re-creation must answer BucketAlreadyExists.",
         "exhaustive small-scope enumeration by TLC (spec/MC_Names.tla, S3BucketName.tla) replayed",
         "non-canonical dotted-decimal names (octet > 255, leading zeros) are don't-care"),
 "C01": ("model_checking",
         "Every transition of a read/write model (1 bucket, nested keys, 2 bodies + the empty body, upload by PUT, PUT with "
         "x-amz-meta/Content-Type/Content-Encoding/Content-Disposition, browser-form POST, copy; reads by GET, HEAD and listing) "
         "is replayed on every backend incl. single-bucket ones, with integrity checking on and off, with plain and rich keys "
         "(UTF-8, blanks, characters needing URL escaping); each abstract body is concretized per tour from size classes "
         "1 B..64 KiB+1 (thorough ..3 MiB) with seeded random bytes; GET body, Content-Length, ETag=quoted MD5, HEAD entity "
         "headers with empty body, returned metadata and listing Size/ETag are compared after every step and in audits.",
         "TLC transition tours replayed; ReadYourWrite action property; byte dimension sampled per size class",
         "bodies sampled, not enumerated (TLA+ treats bodies as opaque atoms); Go Backend API path not exercised separately"),
 "C08": ("model_checking",
         "MC_Upload enumerates the class product target {PUT, aws-chunked PUT, form POST, part} x Content-MD5 {none, good, wrong, "
         "malformed, wrong length, empty} x declared length {exact, shorter, longer, missing, negative, non-numeric} x key "
         "{ok, 1024, 1025 bytes} x metadata {ok, over the limit} x prior {absent, existing object / existing part} x "
         "integrity {on, off} and a body reader failing after k bytes; S3!Upload predicts accept or the admissible refusals and "
         "RejectedUnchanged is an invariant; after every attempt the key, the listing and the pending upload are audited on "
         "every backend.",
         "exhaustive class-product enumeration by TLC (spec/MC_Upload.tla) replayed with audits; fault points enumerated",
         "metadata boundary tested well under / well over the limit; over-long bodies only in process"),
 "C12": ("model_checking",
         "TLC model-checks a state-machine model of the decoder under all transport fragmentations and consumer buffer sizes "
         "(DecodeExact) and enumerates streams of <=2-3 chunks of 1..3 units x final chunk present/absent x cyclic fragment "
         "patterns x buffer patterns x EOF delivered with/without data x malformations (non-hex size, truncated header, truncated "
         "data, declared decoded length short/long); each case drives the real decoder directly (verif-tagged export) and, "
         "scaled so that chunks straddle 32 KiB, an end-to-end PUT on every backend followed by a GET.",
         "TLC model check of the decoder state machine + TLC-enumerated cases executed on the real decoder and end to end",
         "fragment/buffer sequences are cyclic patterns of length <= 2 in the executed cases"),
 "C15": ("model_checking",
         "Clean restart: after every mutating transition of the C02 store model the persistent backend (bolt file with fsync on, "
         "multi- and single-bucket fs on a real directory with on-disk metadata) is closed, a new backend is constructed on the "
         "same storage and the whole observable state (buckets, listings, bodies, sizes, ETags, metadata) is audited against the "
         "specification. Crash points: for every mutating transition TLC emits the audits of the state before and after it; the "
         "harness kills the step before each of its mutating file-system calls (wrapping afero.Fs; nothing after the kill "
         "happens, deferred clean-up included), restarts on the underlying storage and requires exactly the before- or the "
         "after-state (S3Persist: in flight = wholly present or wholly absent).",
         "TLC transition tours replayed with restart before the audit + crash-point enumeration per mutating fs call",
         "bolt commit internals and the OS page cache are not enumerable: bolt crash points are not covered in the quick tier; "
         "three crash windows of the fs backends are listed known findings (F17, F24, F25)"),
 "C07": ("model_checking",
         "Small concurrent programs (2-4 clients, 1-2 operations each on 1-2 keys, versioned and multipart included, bodies "
         "arriving in two halves) are run under EVERY interleaving of their park points (entry of each call made on the backend, "
         "middle of a request body, first write of a download), enumerated depth first by the harness; deadlocks are reported "
         "with their schedule. Concurrent histories are also recorded from free-running clients (2-4 clients x 12 ops on 2 keys: put/get/head/delete/copy/list, "
         "versioned puts and reads by id, concurrent part uploads and completes; every slow-uploader and slow-reader scenario "
         "built from gated request bodies and response writers; thorough: up to 16 clients, more seeds) on every backend incl. "
         "real directories, ordered by one atomic counter. TLC (spec/TraceConc.tla) searches for a linearization: silent Lin "
         "steps apply S3!Step, copy is two steps, every reply (body identity, ETag, length, version id, listing ETags) must "
         "match, and the quiescent final state must equal the model's (no lost update). Histories of <=4 clients are decided "
         "exactly (breadth-first); larger ones by first-witness search under the Go race detector; 12-16-client histories of "
         "single-key operations key by key (locality). A sweep re-uploads a part while a completion is under way. On s3mem the "
         "same runs are decided a second time, search-free, from state traces recorded under the backend's lock (TraceMem.tla).",
         "trace validation with linearization search by TLC (TraceConc.tla) + state-trace refinement check (TraceMem.tla); "
         "race/deadlock clause observed (Go race detector, deadlines)",
         "data races and deadlocks are observations made while recording, not model-checked; all interleavings are "
         "enumerated only for the small programs and only at the granularity of backend calls / body halves / download start; "
         "larger histories are those the Go scheduler and the gates produce"),
 "C09": ("model_checking",
         "TLC enumerates the abstract request grammar (7 methods x 15 path shapes x 19 routed sub-resource sets, with one further "
         "dimension varied per request: 18 parameters x 10 value classes, 45 header variants incl. hostile copy sources, ranges, "
         "declared lengths of 2^40/2^62, 14 body classes incl. malformed XML and negative part numbers): ~160k requests quick, "
         "~470k thorough. Each is issued against a prepared s3mem store (versioned bucket with delete markers, a deleted current "
         "version, fully deleted keys, pending uploads with gaps) and sampled on bolt/multi-fs and under host-bucket, auto-bucket "
         "and no-versioning options, in a child process with an address-space limit. Every observation (panic, hang, status, body "
         "kind, error code, canary on the same and another bucket, state unchanged by read-only methods) is judged by TLC "
         "(spec/TraceReq.tla: WellFormedReply, code/status consistency).",
         "TLC-enumerated request grammar executed against prepared stores; observations validated by TLC (TraceReq)",
         "no coverage-guided byte-level fuzzing; panics/hangs/process death are observations recorded into the trace"),
 "C10": ("model_checking",
         "Transition tours of a two-bucket store over hostile key universes (leading dots, backslashes, percent-encoded bytes, "
         "names of the backends' internal storage, keys that look like 'otherbucket/key'; on key-value backends also '.', '..', "
         "'a/../b', 'a//b' as distinct byte strings) with every operation kind and a full audit of both buckets after each "
         "mutating step; Frame is an action property of the model. Every operation addressed to the names '_meta', '.', '..' "
         "must be refused and change nothing. For path-like keys on the fs backends ('..', '../x', '../bkt2/a', "
         "'z/../../bkt2/a', './z', 'z//y', '/z', '../../metadata/bkt2/x', ...) every operation kind is issued from every reachable "
         "state of two buckets: any complete reply is admissible, but all canary objects, the bucket list and the other "
         "bucket's listing must be exactly as before.",
         "TLC transition tours with hostile key universes + per-state escape-key probes with spec-computed audits; Frame action property",
         "fs aliasing is tested for containment, not for a particular outcome"),
}

NOT_YET = {}


def main():
    props = [json.loads(l)["id"] for l in open(os.path.join(VERIF, "properties.jsonl"))]
    try:
        commits = subprocess.run(["git", "-C", "/repo", "log", "--format=%h %s", "a302e61..HEAD"],
                                 capture_output=True, text=True).stdout.strip().splitlines()
    except Exception:
        commits = []
    hook_commits = [c.split()[0] for c in commits if c.split(" ", 1)[1].startswith("verif:")]
    checks = []
    for pid in props:
        if pid not in CHECKS:
            continue
        level, text, technique, note = CHECKS[pid]
        checks.append({
            "property_id": pid,
            "quick_cmd": "bin/check %s --tier quick" % pid,
            "thorough_cmd": "bin/check %s --tier thorough" % pid,
            "evidence_file": "/verif/evidence/%s.json" % pid,
            "replay_cmd_template": "bin/check %s --replay {path}" % pid,
            "engine": "tlc+harness",
            "level_claimed": {"category": level, "text": text, "design_ref": "DESIGN.md section 7 (%s)" % pid},
            "level_note": note,
            "technique": technique,
        })
    m = {
        "version": 1,
        "setup_cmd": "bin/setup",
        "hooks": {"guard": "verif", "enable": "go build -tags verif (harness module with replace => /repo)",
                  "baseline_off_cmd": "cd /repo && go test -vet=off -count=1 -timeout 25m ./...",
                  "source_commits": hook_commits, "add_only": True},
        "engines": [{"name": "tlc+harness", "path": "/verif/bin/check",
                     "serves_properties": [c["property_id"] for c in checks],
                     "kind_free_text": "TLA+ specification (spec/*.tla) model-checked by TLC; TLC-emitted behaviours "
                                       "replayed into the real code and recorded traces validated by TLC; Go harness in harness/"}],
        "checks": checks,
        "notes": "known findings: known_findings.json; design: DESIGN.md",
        "not_applicable": [{"property_id": p, "reason": NOT_YET.get(p, "check under construction in this session; not claimed yet")}
                           for p in props if p not in CHECKS],
    }
    with open(os.path.join(VERIF, "MANIFEST.json"), "w") as f:
        json.dump(m, f, indent=1)
    print("manifest: %d checks, %d not claimed" % (len(checks), len(m["not_applicable"])))


if __name__ == "__main__":
    main()
