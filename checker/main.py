import argparse, os, subprocess, sys, traceback
from . import core
from .core import Infra, Report, Work, log


def main(argv):
    ap = argparse.ArgumentParser()
    ap.add_argument("prop")
    ap.add_argument("--tier", default=os.environ.get("VERIF_TIER", "quick"), choices=["quick", "thorough"])
    ap.add_argument("--replay", default=None)
    a = ap.parse_args(argv)
    try:
        seed = int(os.environ.get("VERIF_SEED", "1"))
    except ValueError:
        seed = 1
    from . import plans
    try:
        core.build_harness()
        if a.replay and (a.replay.endswith(".ndjson") or a.replay.endswith(".txt")):
            return replay_trace(a.prop, a.replay)
        if a.replay and "-chunk-" in a.replay:
            return subprocess.run([core.HARNESS, "chunk", "--case", a.replay]).returncode
        if a.replay and "-crash-" in a.replay:
            return subprocess.run([core.HARNESS, "crash", "--case", a.replay]).returncode
        if a.replay and "-req-" in a.replay:
            return replay_req(a.prop, a.replay)
        if a.replay:
            p = subprocess.run([core.HARNESS, "replay", "--file", a.replay,
                                "--findings", os.path.join(core.VERIF, "known_findings.json")])
            return p.returncode
        fn = plans.PLANS.get(a.prop)
        if fn is None:
            log("no check for", a.prop)
            return 2
        work = Work(a.prop)
        try:
            rep = fn(a.tier, seed, work)
            return rep.finish(core.findings_descriptions())
        finally:
            work.close()
    except Infra as e:
        log("INFRASTRUCTURE PROBLEM (not a verdict):", e)
        return 2
    except Exception:
        traceback.print_exc()
        return 2


def replay_trace(prop, path):
    """Re-validates a recorded trace (a walk, a concurrent history) with TLC.  The recording cannot be
    re-executed deterministically; the stored trace is the observed behaviour of the real code."""
    if path.endswith(".txt"):
        print(open(path).read()[:3000])
        print("VIOLATION property=%s replay=%s" % (prop, path))
        return 1
    first = open(path).readline()
    work = Work(prop + ".replay")
    try:
        if '"t":"start"' in first:
            ok, at, _ = core.validate_trace(work, "TraceWalk", path)
            verdict = "accepted" if ok else "rejected"
        elif "-memtrace-" in os.path.basename(path) or "-uptrace-" in os.path.basename(path):
            mod = "TraceMem" if "-memtrace-" in os.path.basename(path) else "TraceUp"
            core.write_cfg(work.path(mod + ".cfg"), {}, constraint="HighWater", postcondition="Accepted")
            ok, at, _ = core.validate_trace(work, mod, path, cfgname=mod + ".cfg")
            verdict = "accepted" if ok else "rejected"
        else:
            verdict, at, _ = core.validate_conc(work, path)
        print("replay: trace %s by TLC%s" % (verdict, (" at event %s" % at) if at else ""))
        if verdict == "rejected":
            print("VIOLATION property=%s replay=%s" % (prop, path))
            return 1
        return 0 if verdict == "accepted" else 2
    finally:
        work.close()


def replay_req(prop, path):
    import json as _j
    p = subprocess.run([core.HARNESS, "fuzzreq", "--one", path], capture_output=True, text=True)
    if p.returncode != 0:
        print(p.stderr[-2000:])
        print("VIOLATION property=%s replay=%s" % (prop, path))
        return 1
    ob = _j.loads(p.stdout.strip().splitlines()[-1])
    work = Work(prop + ".replay")
    try:
        tr = work.path("one.ndjson")
        open(tr, "w").write(_j.dumps(ob) + "\n")
        ok, at, _ = core.validate_trace(work, "TraceReq", tr)
        print("replay: observation", _j.dumps(ob)[:400], "->", "accepted" if ok else "rejected")
        if not ok:
            print("VIOLATION property=%s replay=%s" % (prop, path))
            return 1
        return 0
    finally:
        work.close()
