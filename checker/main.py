import argparse, os, subprocess, sys, traceback
from . import core
from .core import Infra, Report, Work, log


def main(argv):
    ap = argparse.ArgumentParser()
    ap.add_argument("prop")
    ap.add_argument("--tier", default=os.environ.get("VERIF_TIER", "quick"), choices=["quick", "thorough"])
    ap.add_argument("--replay", default=None)
    a = ap.parse_args(argv)
    try:
        seed = int(os.environ.get("VERIF_SEED", "1"))
    except ValueError:
        seed = 1
    from . import plans
    try:
        core.build_harness()
        if a.replay:
            p = subprocess.run([core.HARNESS, "replay", "--file", a.replay,
                                "--findings", os.path.join(core.VERIF, "known_findings.json")])
            return p.returncode
        fn = plans.PLANS.get(a.prop)
        if fn is None:
            log("no check for", a.prop)
            return 2
        work = Work(a.prop)
        try:
            rep = fn(a.tier, seed, work)
            return rep.finish(core.findings_descriptions())
        finally:
            work.close()
    except Infra as e:
        log("INFRASTRUCTURE PROBLEM (not a verdict):", e)
        return 2
    except Exception:
        traceback.print_exc()
        return 2
