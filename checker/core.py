"""Orchestration shared by every check: build the harness from /repo's current
tree, run TLC on a model configuration in a scratch directory, stream the
emitted tours into the Go harness, collect statistics, print the verdict lines
and write the evidence file.

Exit codes: 0 held (KNOWN-FINDING lines for listed findings), 1 VIOLATION,
2 infrastructure problem (never a verdict).
"""
import json, os, re, shutil, subprocess, sys, tempfile, threading, time

VERIF = os.path.dirname(os.path.dirname(os.path.abspath(__file__)))
REPO = os.environ.get("VERIF_REPO", "/repo")
# where evidence and replays go: /verif for the real tree; a scratch directory when another checkout is
# being checked (bin/seedcheck), so that a run against a changed tree never overwrites the real evidence
OUT = VERIF if REPO == "/repo" else os.path.join(VERIF, ".work", "alt-out")
SPEC = os.path.join(VERIF, "spec")
HARNESS_DIR = os.path.join(VERIF, "harness")
HARNESS = os.path.join(HARNESS_DIR, "bin", "harness")
TLA_CP = "/opt/veriftools/tla/tla2tools.jar:/opt/veriftools/tla/CommunityModules-deps.jar"
GOENV = dict(os.environ, GOFLAGS="-mod=mod", GOPROXY="off", GOSUMDB="off", GOTOOLCHAIN="local",
             GOCACHE=os.environ.get("GOCACHE", os.path.join(VERIF, ".work", "gocache")))


class Infra(Exception):
    pass


def log(*a):
    print(*a, file=sys.stderr, flush=True)


def build_harness(race=False):
    """(Re)build the harness against /repo's working tree with hooks on.
    With VERIF_REPO set to another checkout (used by bin/seedcheck to test a changed tree without touching
    /repo) an alternative go.mod redirects the replace directive and a separate binary is built."""
    global HARNESS
    os.makedirs(os.path.join(VERIF, ".work"), exist_ok=True)
    cmd = ["go", "build", "-tags", "verif"]
    if REPO != "/repo":
        import hashlib
        tag = hashlib.sha1(REPO.encode()).hexdigest()[:8]
        HARNESS = os.path.join(HARNESS_DIR, "bin", "harness-" + tag)
        modfile = os.path.join(VERIF, ".work", "go.%s.mod" % tag)
        with open(os.path.join(HARNESS_DIR, "go.mod")) as f:
            mod = f.read().replace("=> /repo", "=> " + REPO)
        with open(modfile, "w") as f:
            f.write(mod)
        shutil.copyfile(os.path.join(REPO, "go.sum"), modfile[:-4] + ".sum")
        cmd += ["-modfile", modfile]
    else:
        shutil.copyfile(os.path.join(REPO, "go.sum"), os.path.join(HARNESS_DIR, "go.sum"))
    out = HARNESS + ("-race" if race else "")
    cmd += ["-o", out]
    if race:
        cmd.insert(2, "-race")
    cmd.append(".")
    t0 = time.time()
    p = subprocess.run(cmd, cwd=HARNESS_DIR, env=GOENV, capture_output=True, text=True)
    if p.returncode != 0:
        raise Infra("go build failed:\n" + p.stdout + p.stderr)
    log("built %s in %.1fs" % (os.path.basename(out), time.time() - t0))
    return out


class Work:
    """Scratch directory under /verif/.work, removed on exit."""

    def __init__(self, tag):
        base = os.path.join(VERIF, ".work")
        os.makedirs(base, exist_ok=True)
        self.dir = tempfile.mkdtemp(prefix=tag + ".", dir=base)
        for f in os.listdir(SPEC):
            if f.endswith(".tla"):
                shutil.copy(os.path.join(SPEC, f), self.dir)

    def path(self, *a):
        return os.path.join(self.dir, *a)

    def close(self):
        shutil.rmtree(self.dir, ignore_errors=True)


def cfg_value(v):
    if isinstance(v, bool):
        return "TRUE" if v else "FALSE"
    if isinstance(v, int):
        return str(v)
    if isinstance(v, str):
        return json.dumps(v)
    if isinstance(v, (set, frozenset, list, tuple)):
        return "{" + ", ".join(cfg_value(x) for x in sorted(v, key=str)) + "}"
    raise ValueError(v)


def write_cfg(path, constants, spec="Spec", init=None, next_=None, view=None, action_constraint=None,
              constraint=None, invariants=(), properties=(), postcondition=None, extra=""):
    lines = []
    if init:
        lines += ["INIT " + init, "NEXT " + next_]
    else:
        lines.append("SPECIFICATION " + spec)
    if constants:
        lines.append("CONSTANTS")
        for k, v in constants.items():
            lines.append("  %s = %s" % (k, cfg_value(v)))
    if view:
        lines.append("VIEW " + view)
    if action_constraint:
        lines.append("ACTION_CONSTRAINT " + action_constraint)
    if constraint:
        lines.append("CONSTRAINT " + constraint)
    if invariants:
        lines.append("INVARIANTS " + " ".join(invariants))
    if properties:
        lines.append("PROPERTIES " + " ".join(properties))
    if postcondition:
        lines.append("POSTCONDITION " + postcondition)
    lines.append("CHECK_DEADLOCK FALSE")
    if extra:
        lines.append(extra)
    with open(path, "w") as f:
        f.write("\n".join(lines) + "\n")


TLC_STATS = re.compile(r"(\d+) states generated, (\d+) distinct states found")


class TLCResult:
    def __init__(self):
        self.generated = 0
        self.distinct = 0
        self.ok = False
        self.log = []
        self.rc = None
        self.lines_out = 0
        self.wall = 0.0


def run_tlc(work, module, cfgfile, sink=None, workers=1, timeout=1800, heap="4g", simulate=None, extra_args=(),
            java_props=(), env=None):
    """Run TLC.  Lines that are emitted tours (start with '"[') are written to
    sink (a binary file object, e.g. the harness's stdin); everything else is
    kept as the log.  Returns a TLCResult."""
    res = TLCResult()
    meta = tempfile.mkdtemp(prefix="md.", dir=work.dir)
    cmd = ["timeout", str(timeout), "java", "-Xmx" + heap, "-Xss64m", "-XX:+UseParallelGC",
           "-Djava.io.tmpdir=" + meta]     # (TLC's own scratch directory goes with the run's metadir, not to /tmp)
    cmd += list(java_props)
    cmd += ["-cp", TLA_CP, "tlc2.TLC", "-workers", str(workers), "-metadir", meta, "-config", cfgfile]
    if simulate:
        cmd += ["-simulate", simulate]
    cmd += list(extra_args)
    covdir = os.environ.get("VERIF_TLC_COVERAGE")     # bin/speccoverage: which expressions of S3.tla do the checks evaluate
    cov = {}
    if covdir:
        cmd += ["-coverage", "1"]
    cmd.append(module)
    t0 = time.time()
    p = subprocess.Popen(cmd, cwd=work.dir, stdout=subprocess.PIPE, stderr=subprocess.STDOUT, bufsize=1 << 20, env=env)
    try:
        for raw in p.stdout:
            if raw.startswith(b'"[') or raw.startswith(b'"{'):
                res.lines_out += 1
                if sink is not None:
                    try:
                        sink.write(raw)
                    except BrokenPipeError:
                        p.kill()
                        raise Infra("harness went away while TLC was emitting tours")
            else:
                line = raw.decode("utf-8", "replace").rstrip("\n")
                if covdir:
                    m = COVERAGE_LINE.match(line)
                    if m:
                        if m.group(2) == "S3":
                            cov[m.group(1)] = max(cov.get(m.group(1), 0), int(m.group(3)))
                        continue
                if len(res.log) < 4000:
                    res.log.append(line)
                m = TLC_STATS.search(line)
                if m:
                    res.generated, res.distinct = int(m.group(1)), int(m.group(2))
    finally:
        p.wait()
    res.rc = p.returncode
    res.wall = time.time() - t0
    text = "\n".join(res.log)
    res.ok = (p.returncode == 0 and "Model checking completed. No error has been found." in text) or \
             (simulate is not None and p.returncode in (0,) )
    if simulate is not None and ("Error:" in text and "violated" in text):
        res.ok = False
    shutil.rmtree(meta, ignore_errors=True)
    if covdir and cov:
        os.makedirs(covdir, exist_ok=True)
        with open(os.path.join(covdir, "%s.%s.%d.json" % (module, os.path.basename(cfgfile), int(t0 * 1000))), "w") as f:
            json.dump(cov, f)
    return res


COVERAGE_LINE = re.compile(r"^\s*\|*(line \d+, col \d+ to line \d+, col \d+) of module (\w+): (\d+)")


class Harness:
    """A running `harness replay` process fed through its stdin."""

    def __init__(self, work, prop, systems, opts="", seed=1, thorough=False, small=False, keys="plain",
                 reopen=False, workers=16, tag="r", addr="", memtrace=None, large=False):
        self.out = work.path("sum.%s.json" % tag)
        cmd = [HARNESS, "replay", "--property", prop, "--systems", ",".join(systems), "--opts", opts,
               "--seed", str(seed), "--keys", keys, "--workers", str(workers), "--out", self.out,
               "--replays", os.path.join(OUT, "replays"),
               "--findings", os.path.join(VERIF, "known_findings.json")]
        if thorough:
            cmd.append("--thorough")
        if small:
            cmd.append("--small")
        if large:
            cmd.append("--large")
        if reopen:
            cmd.append("--reopen")
        if addr:
            cmd += ["--addr", addr]
        env = dict(os.environ)
        if memtrace:
            env["VERIF_S3MEM_TRACE"] = memtrace     # backend/s3mem/verif_trace.go: state events of every s3mem instance
            os.makedirs(memtrace + ".up", exist_ok=True)
            env["VERIF_UPLOADER_TRACE"] = memtrace + ".up"   # verif_trace.go: state events of every uploader
        self.p = subprocess.Popen(cmd, stdin=subprocess.PIPE, stderr=subprocess.PIPE, env=env, bufsize=1 << 20)
        self.err = []
        self.t = threading.Thread(target=self._drain, daemon=True)
        self.t.start()

    def _drain(self):
        for l in self.p.stderr:
            self.err.append(l.decode("utf-8", "replace"))

    @property
    def stdin(self):
        return self.p.stdin

    def finish(self):
        try:
            self.p.stdin.close()
        except Exception:
            pass
        rc = self.p.wait()
        self.t.join(timeout=5)
        err = "".join(self.err)
        if rc != 0 or not os.path.exists(self.out):
            raise Infra("harness exited with %s:\n%s" % (rc, err[-4000:]))
        with open(self.out) as f:
            return json.load(f)


class Report:
    """Accumulates what a check covered and produces verdict + evidence."""

    def __init__(self, prop, tier, seed, level="model_checking"):
        self.prop, self.tier, self.seed, self.level = prop, tier, seed, level
        self.t0 = time.time()
        self.states = 0
        self.transitions = 0
        self.traces = 0
        self.steps = 0
        self.samples = []
        self.violations = []   # (replay path, message)
        self.known = {}        # finding id -> count
        self.stages = []
        self.assumptions = []
        self.extra = {}
        self.exhaustive = True
        self.evaluations = 0
        self.distinct = 0
        # replay files of earlier runs of this check are stale
        import glob
        for f in glob.glob(os.path.join(OUT, "replays", prop + "-*")):
            try:
                os.remove(f)
            except OSError:
                pass

    def add_tlc(self, name, res):
        self.states += res.distinct
        self.transitions += res.generated
        self.stages.append({"stage": name, "tlc_states": res.distinct, "tlc_transitions": res.generated,
                            "tlc_wall_s": round(res.wall, 1), "emitted": res.lines_out})

    def add_replay(self, name, summ):
        self.traces += summ["executions"]
        self.steps += summ["steps"]
        for s in summ.get("samples") or []:
            if len(self.samples) < 4:
                self.samples.append(s)
        for fid, n in (summ.get("known") or {}).items():
            self.known[fid] = self.known.get(fid, 0) + n
        files = summ.get("replay_files") or []
        for i, m in enumerate(summ.get("mismatches") or []):
            path = files[i] if i < len(files) else ""
            op = m["tour"][m["at"]]["op"].get("op")
            self.violations.append((path, "%s step %d %s: %s" % (m["system"], m["at"], op, "; ".join(m["msgs"][:2]))))
        self.stages.append({"stage": name, "tours": summ["tours"], "executions": summ["executions"],
                            "steps": summ["steps"], "per_system": summ.get("per_system"),
                            "ops_seen": summ.get("ops_seen"), "unconfirmed": summ.get("unconfirmed", 0),
                            "signatures": summ.get("signature_counts"), "wall_s": round(summ.get("wall_s", 0), 1)})

    def finish(self, findings_desc=None):
        wall = time.time() - self.t0
        cov = {
            "states": max(self.states, 1) if self.level == "model_checking" else self.states,
            "transitions": max(self.transitions, 1) if self.level == "model_checking" else self.transitions,
            "traces_validated_against_impl": self.traces,
            "steps_compared": self.steps,
            "samples": self.samples or [{"note": "no sample recorded"}],
            "exhaustive": self.exhaustive,
            "stages": self.stages,
            "known_findings_seen": self.known,
        }
        if self.evaluations:
            cov["evaluations"] = self.evaluations
            cov["distinct_nontrivial"] = self.distinct
            cov["rule"] = self.extra.pop("rule", "one evaluation per executed case; distinct = distinct (system, operation, step) combinations")
        cov.update(self.extra)
        ev = {"property_id": self.prop, "tier": self.tier, "seed": self.seed, "level": self.level,
              "coverage": cov, "assumptions": self.assumptions, "wall_s": round(wall, 1),
              "violations": len(self.violations)}
        os.makedirs(os.path.join(OUT, "evidence"), exist_ok=True)
        with open(os.path.join(OUT, "evidence", self.prop + ".json"), "w") as f:
            json.dump(ev, f, indent=1)
        for fid, n in sorted(self.known.items()):
            desc = (findings_desc or {}).get(fid, "")
            print("KNOWN-FINDING: property=%s %s (%d occurrences) %s" % (self.prop, fid, n, desc))
        if self.violations:
            seen = set()
            for path, msg in self.violations:
                if path in seen:
                    continue
                seen.add(path)
                print("VIOLATION property=%s replay=%s" % (self.prop, path))
                print("  " + msg)
            return 1
        unconf = list(self.extra.get("unconfirmed") or []) if isinstance(self.extra.get("unconfirmed"), list) else []
        nstage = sum(int(s.get("unconfirmed") or 0) for s in self.stages)
        if unconf or nstage:
            # a rejection that a fresh execution did not reproduce is neither a verdict nor a pass
            print("INCONCLUSIVE property=%s: %d rejected trace(s) / mismatch(es) were not reproduced on re-execution" % (
                self.prop, len(unconf) + nstage))
            for d in unconf[:3]:
                print("  " + d[:300])
            return 2
        print("OK property=%s tier=%s states=%d transitions=%d traces=%d steps=%d wall=%.0fs" % (
            self.prop, self.tier, self.states, self.transitions, self.traces, self.steps, wall))
        return 0


def findings_descriptions():
    p = os.path.join(VERIF, "known_findings.json")
    try:
        with open(p) as f:
            d = json.load(f)
        return {x["id"]: x.get("description", "") for x in d.get("findings", []) if x.get("status") == "open"}
    except FileNotFoundError:
        return {}


def tour_stage(rep, work, name, module, constants, systems, opts="", keys="plain", thorough=False, small=False,
               reopen=False, invariants=(), properties=(), timeout=1800, heap="4g", view="View", emit="Emit",
               simulate=None, hworkers=16, tlc_workers=1, addr="", memtrace=False, large=False):
    """One TLC run whose emitted tours are replayed on `systems`.  `emit` names
    the ACTION_CONSTRAINT that prints tours (transition tours); modules that
    enumerate cases as initial states print from an invariant instead
    (emit=None, the printing invariant listed in `invariants`)."""
    cfgfile = "%s.%s.cfg" % (module, re.sub(r"\W", "_", name))
    write_cfg(work.path(cfgfile), constants, view=view, action_constraint=emit, invariants=invariants,
              properties=properties)
    mtdir = None
    if memtrace:
        mtdir = tempfile.mkdtemp(prefix="memtrace.", dir=work.dir)
    h = Harness(work, rep.prop, systems, opts=opts, seed=rep.seed, thorough=thorough, small=small, keys=keys,
                reopen=reopen, workers=hworkers, tag=re.sub(r"\W", "_", name), addr=addr, memtrace=mtdir, large=large)
    try:
        res = run_tlc(work, module + ".tla", cfgfile, sink=h.stdin, workers=tlc_workers, timeout=timeout, heap=heap,
                      simulate=simulate)
    except Exception:
        h.p.kill()
        raise
    summ = h.finish()
    if not res.ok:
        raise Infra("TLC run %s failed (rc=%s):\n%s" % (name, res.rc, "\n".join(res.log[-40:])))
    if summ["tours"] != res.lines_out:
        raise Infra("stage %s: TLC emitted %d tours, harness read %d" % (name, res.lines_out, summ["tours"]))
    rep.add_tlc(name, res)
    rep.add_replay(name, summ)
    log("stage %-28s tlc %d/%d states %.0fs; %d tours x %s -> %d steps, %d mismatches, known %s" % (
        name, res.distinct, res.generated, res.wall, summ["tours"], ",".join(systems), summ["steps"],
        len(summ.get("mismatches") or []), summ.get("known")))
    if mtdir:
        if "mem" in systems:
            memtrace_validate(rep, work, name + " (s3mem state trace)", mtdir)
        memtrace_validate(rep, work, name + " (uploader state trace)", mtdir + ".up", module="TraceUp")
    return res, summ


# ---------------------------------------------------------------------------
# state traces recorded inside backend/s3mem (hooks, build tag verif) validated by TraceMem.tla

STATE_TRACES = {
    # module -> (reset event, description of a rejected event)
    "TraceMem": ({"op": "reset", "b": "", "k": [], "vids": [], "exists": False, "ver": "None", "stack": []},
                 lambda e: "bucket exists=%s versioning=%s stack=%s" % (e["exists"], e["ver"], json.dumps(e["stack"])[:400])),
    "TraceUp": ({"op": "reset", "b": "", "k": [], "uid": "", "part": 0, "list": [], "ups": [], "all": []},
                lambda e: "upload=%s part=%s list=%s uploads on the key=%s all=%s" % (
                    e["uid"], e["part"], json.dumps(e["list"])[:120], json.dumps(e["ups"])[:400], e["all"])),
}


def memtrace_validate(rep, work, name, tracedir, piece=60000, module="TraceMem"):
    """Groups the events by instance (a backend, an uploader), orders each group by its sequence number (taken under
    the instance's lock), and lets TLC check event by event that the logged state is an outcome S3!Step admits."""
    import collections, hashlib
    reset, describe = STATE_TRACES[module]
    what = {"TraceMem": "s3mem", "TraceUp": "uploader"}[module]
    groups = collections.defaultdict(list)
    for fn in sorted(os.listdir(tracedir)):
        if not fn.endswith(".ndjson"):
            continue
        with open(os.path.join(tracedir, fn)) as f:
            for line in f:
                line = line.strip()
                if line:
                    e = json.loads(line)
                    groups[(fn, e["i"])].append(e)
    insts = []
    for key in sorted(groups):
        es = sorted(groups[key], key=lambda e: e["n"])
        if [e["n"] for e in es] != list(range(1, len(es) + 1)):
            raise Infra("state trace of instance %s has gaps in its sequence numbers" % (key,))
        insts.append(es)
    nev = sum(len(x) for x in insts)
    vr = TLCResult()
    rejected = []
    cfg = module + ".cfg"
    write_cfg(work.path(cfg), {}, constraint="HighWater", postcondition="Accepted")
    pending = list(insts)
    while pending:
        chunk, size = [], 0
        while pending and (size == 0 or size + len(pending[0]) + 1 <= piece):
            x = pending.pop(0)
            chunk.append(x)
            size += len(x) + 1
        tf = work.path("%s.%d.ndjson" % (module, len(pending)))
        bounds = []
        with open(tf, "w") as f:
            n = 0
            for es in chunk:
                f.write(json.dumps(reset) + "\n")
                n += 1
                bounds.append((n, es))
                for e in es:
                    f.write(json.dumps(e, separators=(",", ":")) + "\n")
                n += len(es)
        while True:
            ok, at, res = validate_trace(work, module, tf, cfgname=cfg)
            vr.distinct += res.distinct
            vr.generated += res.generated
            if ok:
                break
            # the instance holding the first event that could not be explained; validate the rest without it
            bad = None
            for first, es in bounds:
                if first <= at - 1 <= first + len(es):
                    bad = (first, es)
            if bad is None:
                raise Infra("%s rejected event %s which belongs to no instance" % (module, at))
            rejected.append((bad[1], at - bad[0] - 1))
            bounds = [b for b in bounds if b[1] is not bad[1]]
            if len(rejected) >= 12:
                # enough to report (the check fails anyway): the remaining instances are not examined, nor counted
                unexamined = len(bounds) + len(pending)
                insts = insts[:len(insts) - unexamined]
                bounds, pending = [], []
            if not bounds:
                break
            with open(tf, "w") as f:
                n = 0
                nb = []
                for first, es in bounds:
                    f.write(json.dumps(reset) + "\n")
                    n += 1
                    nb.append((n, es))
                    for e in es:
                        f.write(json.dumps(e, separators=(",", ":")) + "\n")
                    n += len(es)
                bounds = nb
    rep.add_tlc(name, vr)
    rep.traces += len(insts) - len(rejected)
    rep.stages.append({"stage": name, what + "_instances": len(insts), "state_events": nev, "rejected": len(rejected)})
    if len(rep.samples) < 3 and insts:
        rep.samples.append(max(insts, key=len)[:4])
    for es, idx in rejected:
        idx = max(0, min(idx, len(es) - 1))
        e = es[idx]
        desc = ("%s state trace: after %s on %s/%s (event %d of its instance) the logged state -- %s -- is not an outcome "
                "the specification admits" % (what, e["op"], e["b"], bytes(e["k"]).decode("utf-8", "replace"), idx + 1, describe(e)))
        fid = classify(rep.prop, "mem", "State:" + e["op"], desc)
        if fid:
            rep.known[fid] = rep.known.get(fid, 0) + 1
            continue
        os.makedirs(os.path.join(OUT, "replays"), exist_ok=True)
        body = "".join(json.dumps(x) + "\n" for x in [reset] + es[:idx + 1])
        rp = os.path.join(OUT, "replays", "%s-%s-%s.ndjson" % (rep.prop, {"TraceMem": "memtrace", "TraceUp": "uptrace"}[module],
                                                               hashlib.sha1(body.encode()).hexdigest()[:16]))
        with open(rp, "w") as f:
            f.write(body)
        rep.violations.append((rp, desc))
    log("stage %-28s %d %s instances / %d state events validated by %s: rejected %d" % (name, len(insts), what, nev, module, len(rejected)))


def repotests_stage(rep, work, name, which="both"):
    """The repository's own test-suite, run with the s3mem hooks on: every test that touches the in-memory backend
    becomes a conformance test whose oracle is the specification."""
    mtdir = tempfile.mkdtemp(prefix="memtrace.", dir=work.dir)
    updir = tempfile.mkdtemp(prefix="uptrace.", dir=work.dir)
    env = dict(GOENV, VERIF_S3MEM_TRACE=mtdir, VERIF_UPLOADER_TRACE=updir)
    p = subprocess.run(["go", "test", "-tags", "verif", "-vet=off", "-count=1", "./..."], cwd=REPO, env=env,
                       capture_output=True, text=True, timeout=1500)
    if p.returncode != 0:
        # (a failing test of the repository is not this check's verdict; the traces recorded so far still are)
        log("stage %-28s the repository's tests did not all pass with the hooks on (rc=%d)" % (name, p.returncode))
        rep.assumptions.append("go test -tags verif ./... exited with %d while recording" % p.returncode)
    if which in ("both", "mem"):
        memtrace_validate(rep, work, name + " s3mem", mtdir)
    if which in ("both", "uploader"):
        memtrace_validate(rep, work, name + " uploader", updir, module="TraceUp")


# ---------------------------------------------------------------------------
# direction B: recorded walks validated by TLC (TraceWalk.tla)

def load_findings():
    try:
        with open(os.path.join(VERIF, "known_findings.json")) as f:
            return [x for x in json.load(f).get("findings", []) if x.get("status") == "open"]
    except FileNotFoundError:
        return []


def classify(prop, system, op, msg):
    for k in load_findings():
        if k.get("property") and prop not in k["property"]:
            continue
        if not re.fullmatch(k.get("sys", ".*"), system):
            continue
        if not re.fullmatch(k.get("op", ".*"), op):
            continue
        if not re.search(k.get("msg", ""), msg):
            continue
        return k["id"]
    return None


def validate_trace(work, module, trace, timeout=1800, heap="4g", cfgname=None, deque=False):
    """Run the trace specification on `trace`.  Returns (accepted, failing
    event index (1-based) or None, TLCResult)."""
    cfgfile = cfgname or (module + ".cfg")
    if not os.path.exists(work.path(cfgfile)):
        write_cfg(work.path(cfgfile), {}, postcondition="Accepted")
    env_trace = os.path.abspath(trace)
    os.environ["TRACE"] = env_trace
    props = ["-Dtlc2.tool.queue.IStateQueue=StateDeque"] if deque else []
    res = run_tlc(work, module + ".tla", cfgfile, workers=1, timeout=timeout, heap=heap, java_props=props)
    text = "\n".join(res.log)
    m = re.search(r'"REJECTED-AT",\s*(\d+),\s*(\d+)', text)
    if m:
        return False, int(m.group(1)), res
    if "Model checking completed. No error has been found." in text and res.rc == 0:
        return True, None, res
    raise Infra("trace validation did not finish (rc=%s):\n%s" % (res.rc, "\n".join(res.log[-30:])))


def split_walks(path):
    """Group the events of a walk trace: list of (first_line_no, [lines])."""
    walks, cur = [], None
    with open(path) as f:
        for i, line in enumerate(f, 1):
            if line.startswith('{"t":"start"'):
                cur = [i, [line]]
                walks.append(cur)
            elif cur is not None:
                cur[1].append(line)
    return walks


def walk_stage(rep, work, name, module, constants, systems, kind, opts="", invariants=(), view="View",
               emit="Emit", tlc_workers=1, every=1, timeout=1800, maxextra=1, keys="plain"):
    """TLC emits store states (tours with `fin`); the harness reaches each and
    records paginated walks; TLC validates the recorded walks."""
    tag = re.sub(r"\W", "_", name)
    cfgfile = "%s.%s.cfg" % (module, tag)
    write_cfg(work.path(cfgfile), constants, view=view, action_constraint=emit, invariants=invariants)
    trace = work.path("walk.%s.ndjson" % tag)
    out = work.path("walk.%s.json" % tag)
    cmd = [HARNESS, "walk", "--kind", kind, "--systems", ",".join(systems), "--opts", opts, "--seed", str(rep.seed),
           "--trace", trace, "--out", out, "--every", str(every), "--maxextra", str(maxextra), "--keys", keys]
    p = subprocess.Popen(cmd, stdin=subprocess.PIPE, stderr=subprocess.PIPE, bufsize=1 << 20)
    errbuf = []
    t = threading.Thread(target=lambda: errbuf.extend(p.stderr.readlines()), daemon=True)
    t.start()
    tours_path = work.path("tours.%s.txt" % tag)
    with open(tours_path, "wb") as keep:
        class Tee:
            def write(self, b):
                keep.write(b)
                p.stdin.write(b)
        res = run_tlc(work, module + ".tla", cfgfile, sink=Tee(), workers=tlc_workers, timeout=timeout)
    p.stdin.close()
    rc = p.wait()
    t.join(timeout=5)
    if rc != 0:
        raise Infra("harness walk failed:\n" + b"".join(errbuf).decode()[-3000:])
    if not res.ok:
        raise Infra("TLC run %s failed (rc=%s):\n%s" % (name, res.rc, "\n".join(res.log[-40:])))
    with open(out) as f:
        summ = json.load(f)
    rep.add_tlc(name + "/gen", res)
    for m in summ.get("setup_mismatches") or []:
        rep.violations.append(("", "%s: setup step %d mismatched: %s" % (m["system"], m["at"], m["msgs"][:2])))
    # validate, peeling rejected walks off so that the rest is still checked; large traces are validated
    # in pieces of at most ~150 000 events (whole walks), one TLC run per piece
    rejected = []
    nwalks = summ["walks"]
    vstates = vtrans = 0
    pieces = [trace]
    if summ["events"] > 150000:
        pieces = []
        out_f, n, idx = None, 0, 0
        with open(trace) as f:
            for line in f:
                if line.startswith('{"t":"start"') and (out_f is None or n > 150000):
                    if out_f:
                        out_f.close()
                    idx += 1
                    pieces.append(work.path("walk.%s.piece%d.ndjson" % (tag, idx)))
                    out_f, n = open(pieces[-1], "w"), 0
                out_f.write(line)
                n += 1
        if out_f:
            out_f.close()
    for piece in pieces:
        cur = piece
        for attempt in range(12):
            if os.path.getsize(cur) == 0:
                break
            ok, at, vres = validate_trace(work, "TraceWalk", cur, timeout=timeout, heap="8g")
            vstates += vres.distinct
            vtrans += vres.generated
            if ok:
                break
            walks = split_walks(cur)
            badw = None
            for first, lines in walks:
                if first <= at < first + len(lines):
                    badw = (first, lines)
            if badw is None:
                badw = walks[-1]
            rejected.append((badw[1], at - badw[0]))
            nxt = work.path("walk.%s.%d.%d.ndjson" % (tag, pieces.index(piece), attempt))
            with open(nxt, "w") as f:
                for first, lines in walks:
                    if first != badw[0]:
                        f.writelines(lines)
            cur = nxt
        else:
            rep.extra.setdefault("notes", []).append("stage %s: more than 12 rejected walks in one piece, validation stopped" % name)
    vr = TLCResult()
    vr.distinct, vr.generated = vstates, vtrans
    rep.add_tlc(name + "/validate", vr)
    rep.traces += nwalks - len(rejected)
    rep.stages.append({"stage": name, "kind": kind, "tours": summ["tours"], "walks": nwalks, "events": summ["events"],
                       "per_system": summ.get("per_system"), "notes": summ.get("notes"), "rejected": len(rejected)})
    if not rep.samples and os.path.exists(trace):
        with open(trace) as f:
            rep.samples.append([json.loads(next(f)) for _ in range(3) if True][:3])
    for lines, off in rejected:
        start = json.loads(lines[0])
        pages = [json.loads(x) for x in lines[1:]]
        desc = "%s walk (%s, max=%d, prefix=%s, delim=%s) on %s rejected at its event %d: %s" % (
            start.get("kind"), start.get("style"), start.get("max"), bytes(start.get("prefix") or []).decode("utf-8", "replace"),
            bytes(start.get("delim") or []).decode("utf-8", "replace"), start.get("sys"), off,
            json.dumps([(len(pg.get("ents") or []), len(pg.get("prefixes") or []), pg.get("trunc"), pg.get("note", "")) for pg in pages if pg["t"] == "page"])[:300])
        # confirm on a fresh execution of the same tour
        confirmed = confirm_walk(work, kind, start, rep.seed, opts, tours_path, maxextra, keys)
        if not confirmed:
            rep.extra.setdefault("unconfirmed", []).append(desc)
            continue
        fid = classify(rep.prop, start.get("sys", ""), "Walk:" + str(start.get("kind")), desc)
        if fid:
            rep.known[fid] = rep.known.get(fid, 0) + 1
            continue
        os.makedirs(os.path.join(OUT, "replays"), exist_ok=True)
        import hashlib
        rp = os.path.join(OUT, "replays", "%s-walk-%s.ndjson" % (rep.prop, hashlib.sha1("".join(lines).encode()).hexdigest()[:16]))
        with open(rp, "w") as f:
            f.writelines(lines)
        rep.violations.append((rp, desc))
    log("stage %-28s tlc %d states; %d walks / %d events on %s; rejected %d; notes %s" % (
        name, res.distinct, nwalks, summ["events"], ",".join(systems), len(rejected), summ.get("notes")))
    return summ


def scale_stage(rep, work, name, kind, systems, n=1005, timeout=1800):
    """Stores with more than 1000 entries (the server's default page limits come into play), built by the harness
    itself, walked with the server's continuation; the recorded walks are validated by TraceWalk."""
    import hashlib
    tag = re.sub(r"\W", "_", name)
    trace = work.path("scale.%s.ndjson" % tag)
    out = work.path("scale.%s.json" % tag)
    cmd = [HARNESS, "scale", "--kind", kind, "--systems", ",".join(systems), "--n", str(n), "--seed", str(rep.seed),
           "--trace", trace, "--out", out]
    p = subprocess.run(cmd, capture_output=True, text=True, timeout=timeout)
    if p.returncode != 0 or not os.path.exists(out):
        raise Infra("harness scale failed (rc=%s):\n%s" % (p.returncode, p.stderr[-3000:]))
    with open(out) as f:
        summ = json.load(f)
    for pr in summ.get("problems") or []:
        rp = os.path.join(OUT, "replays", rep.prop + "-scale-%s.txt" % hashlib.sha1(pr.encode()).hexdigest()[:16])
        os.makedirs(os.path.dirname(rp), exist_ok=True)
        with open(rp, "w") as f:
            f.write(pr)
        rep.violations.append((rp, "building a store of %d entries failed: %s" % (n, pr)))
    rejected = []
    vr = TLCResult()
    cur = trace
    for attempt in range(12):
        if not os.path.exists(cur) or os.path.getsize(cur) == 0:
            break
        ok, at, res = validate_trace(work, "TraceWalk", cur, timeout=timeout, heap="8g")
        vr.distinct += res.distinct
        vr.generated += res.generated
        if ok:
            break
        walks = split_walks(cur)
        badw = None
        for first, lines in walks:
            if first <= at < first + len(lines):
                badw = (first, lines)
        if badw is None:
            badw = walks[-1]
        rejected.append((badw[1], at - badw[0]))
        nxt = work.path("scale.%s.%d.ndjson" % (tag, attempt))
        with open(nxt, "w") as f:
            for first, lines in walks:
                if first != badw[0]:
                    f.writelines(lines)
        cur = nxt
    rep.add_tlc(name, vr)
    rep.traces += summ["walks"] - len(rejected)
    rep.stages.append({"stage": name, "kind": kind, "entries": n, "walks": summ["walks"], "events": summ["events"],
                       "systems": list(systems), "rejected": len(rejected)})
    for lines, off in rejected:
        start = json.loads(lines[0])
        pages = [json.loads(x) for x in lines[1:]]
        desc = "%s walk over %d+ entries (%s, max=%d, prefix=%s, delim=%s) on %s rejected at its event %d: pages %s" % (
            start.get("kind"), n, start.get("style"), start.get("max"), bytes(start.get("prefix") or []).decode("utf-8", "replace"),
            bytes(start.get("delim") or []).decode("utf-8", "replace"), start.get("sys"), off,
            json.dumps([(len(pg.get("ents") or []), len(pg.get("prefixes") or []), pg.get("trunc"), pg.get("note", "")) for pg in pages if pg["t"] == "page"])[:300])
        fid = classify(rep.prop, start.get("sys", ""), "Walk:" + str(start.get("kind")), desc)
        if fid:
            rep.known[fid] = rep.known.get(fid, 0) + 1
            continue
        # the replay keeps the pages but not the thousand-entry store description
        slim = dict(start, live="(%d entries, see harness scale)" % len(start.get("live") or []))
        body = json.dumps(slim) + "\n" + "".join(lines[1:])
        rp = os.path.join(OUT, "replays", "%s-scale-%s.txt" % (rep.prop, hashlib.sha1(body.encode()).hexdigest()[:16]))
        os.makedirs(os.path.dirname(rp), exist_ok=True)
        with open(rp, "w") as f:
            f.write(body)
        rep.violations.append((rp, desc))
    log("stage %-28s %d walks / %d events over %d+ entries on %s; rejected %d" % (
        name, summ["walks"], summ["events"], n, ",".join(systems), len(rejected)))


def confirm_walk(work, kind, start, seed, opts, tours_path, maxextra, keys="plain"):
    """Re-execute the tour the rejected walk belongs to and validate again."""
    trace = work.path("confirm.ndjson")
    cmd = [HARNESS, "walk", "--kind", kind, "--systems", start.get("sys", "mem"), "--opts", opts, "--seed", str(seed),
           "--trace", trace, "--only", str(start.get("tour", 0)), "--maxextra", str(maxextra), "--keys", keys]
    with open(tours_path, "rb") as f:
        p = subprocess.run(cmd, stdin=f, capture_output=True)
    if p.returncode != 0:
        return False
    ok, at, _ = validate_trace(work, "TraceWalk", trace)
    return not ok


def chunk_stage(rep, work, name, constants, systems, scales, e2e_every=1, timeout=1800):
    """C12: TLC model-checks the decoder state machine (DecodeExact) and emits
    the cases; the harness runs each against the real decoder and end to end."""
    # (1) the state machine under all fragmentations
    mc = dict(constants, Emit=False)
    write_cfg(work.path("MC_Chunked.mc.cfg"), mc, invariants=["DecodeExact"])
    res = run_tlc(work, "MC_Chunked.tla", "MC_Chunked.mc.cfg", workers=8, timeout=timeout)
    if not res.ok:
        raise Infra("MC_Chunked model check failed:\n" + "\n".join(res.log[-30:]))
    rep.add_tlc(name + "/model", res)
    # (2) case emission + execution
    em = dict(constants, Emit=True)
    write_cfg(work.path("MC_Chunked.emit.cfg"), em, init="Init", next_="Stutter", invariants=["EmitInv"])
    out = work.path("chunk.%s.json" % re.sub(r"\W", "_", name))
    cmd = [HARNESS, "chunk", "--systems", ",".join(systems), "--scales", ",".join(str(x) for x in scales),
           "--seed", str(rep.seed), "--out", out, "--e2e-every", str(e2e_every)]
    p = subprocess.Popen(cmd, stdin=subprocess.PIPE, stderr=subprocess.PIPE, bufsize=1 << 20)
    errbuf = []
    t = threading.Thread(target=lambda: errbuf.extend(p.stderr.readlines()), daemon=True)
    t.start()
    res2 = run_tlc(work, "MC_Chunked.tla", "MC_Chunked.emit.cfg", sink=p.stdin, workers=1, timeout=timeout)
    p.stdin.close()
    rc = p.wait()
    t.join(timeout=5)
    if rc != 0 or not res2.ok:
        raise Infra("chunk stage failed: harness rc=%s tlc ok=%s\n%s\n%s" % (rc, res2.ok, b"".join(errbuf).decode()[-2000:], "\n".join(res2.log[-20:])))
    with open(out) as f:
        summ = json.load(f)
    rep.add_tlc(name + "/cases", res2)
    rep.traces += summ["decoder_runs"] + summ["e2e_runs"]
    rep.steps += summ["decoder_runs"] + summ["e2e_runs"]
    rep.stages.append({"stage": name, "cases": summ["cases"], "decoder_runs": summ["decoder_runs"], "e2e_runs": summ["e2e_runs"],
                       "per_system": summ["per_system"], "failures": summ["n_failures"], "scales": list(scales)})
    for smp in summ.get("samples") or []:
        if len(rep.samples) < 4:
            rep.samples.append(smp)
    import hashlib
    seen = set()
    for f in summ.get("failures") or []:
        sig = (f["system"], f["case"]["mal"], f["msg"][:40])
        fid = classify(rep.prop, f["system"], "Chunk", f["msg"])
        if fid:
            rep.known[fid] = rep.known.get(fid, 0) + 1
            continue
        if sig in seen:
            continue
        seen.add(sig)
        os.makedirs(os.path.join(OUT, "replays"), exist_ok=True)
        rp = os.path.join(OUT, "replays", "C12-chunk-%s.json" % hashlib.sha1(json.dumps(f, sort_keys=True).encode()).hexdigest()[:16])
        with open(rp, "w") as fh:
            json.dump(f, fh, indent=1)
        rep.violations.append((rp, "%s scale %d: %s  [case %s]" % (f["system"], f["scale"], f["msg"], json.dumps(f["case"]))))
    log("stage %-28s model %d states; %d cases, %d decoder + %d e2e runs, %d failures" % (
        name, res.distinct, summ["cases"], summ["decoder_runs"], summ["e2e_runs"], summ["n_failures"]))
    return summ


def crash_stage(rep, work, name, constants, systems, every=1, timeout=1800):
    """C15 crash points: TLC emits (history, audit before, audit after) for every
    mutating transition; the harness kills the last step at each of its mutating
    file-system calls and audits after a restart."""
    tag = re.sub(r"\W", "_", name)
    cfgfile = "MC_Store.%s.cfg" % tag
    write_cfg(work.path(cfgfile), constants, view="View", action_constraint="EmitCrash")
    out = work.path("crash.%s.json" % tag)
    cmd = [HARNESS, "crash", "--systems", ",".join(systems), "--seed", str(rep.seed), "--out", out, "--every", str(every)]
    p = subprocess.Popen(cmd, stdin=subprocess.PIPE, stderr=subprocess.PIPE, bufsize=1 << 20)
    errbuf = []
    t = threading.Thread(target=lambda: errbuf.extend(p.stderr.readlines()), daemon=True)
    t.start()
    res = run_tlc(work, "MC_Store.tla", cfgfile, sink=p.stdin, workers=1, timeout=timeout)
    p.stdin.close()
    rc = p.wait()
    t.join(timeout=5)
    if rc != 0 or not res.ok:
        raise Infra("crash stage failed: harness rc=%s tlc ok=%s\n%s\n%s" % (rc, res.ok, b"".join(errbuf).decode()[-2000:], "\n".join(res.log[-20:])))
    with open(out) as f:
        summ = json.load(f)
    rep.add_tlc(name, res)
    rep.traces += summ["crash_points"]
    rep.evaluations += summ["crash_points"]
    rep.distinct += len(summ.get("distinct_ops") or {})
    rep.stages.append({"stage": name, "tours": summ["tours"], "crash_points": summ["crash_points"],
                       "distinct_op_step_pairs": len(summ.get("distinct_ops") or {}),
                       "ended_in_post_state": summ["ended_in_post_state"], "ended_in_pre_state": summ["ended_in_pre_state"],
                       "failures": summ["n_failures"]})
    for smp in summ.get("samples") or []:
        if len(rep.samples) < 5:
            rep.samples.append(smp)
    import hashlib
    seen = set()
    for f in summ.get("failures") or []:
        last = f["tour"][-1]["op"].get("op") if f.get("tour") else "?"
        call = (f.get("calls") or ["?"])[-1].split(" ")[0]
        fid = classify(rep.prop, f["system"], "Crash:" + last, f["msg"])
        if fid:
            rep.known[fid] = rep.known.get(fid, 0) + 1
            continue
        sig = (f["system"], last, call, f["msg"][-60:])
        if sig in seen:
            continue
        seen.add(sig)
        os.makedirs(os.path.join(OUT, "replays"), exist_ok=True)
        rp = os.path.join(OUT, "replays", "C15-crash-%s.json" % hashlib.sha1(json.dumps(f, sort_keys=True).encode()).hexdigest()[:16])
        with open(rp, "w") as fh:
            json.dump(f, fh, indent=1)
        rep.violations.append((rp, "%s %s crash at call %d/%d: %s" % (f["system"], last, f["k"], f.get("of", 0), f["msg"][:400])))
    log("stage %-28s tlc %d/%d; %d crash points (%d post / %d pre), %d failures" % (
        name, res.distinct, res.generated, summ["crash_points"], summ["ended_in_post_state"], summ["ended_in_pre_state"], summ["n_failures"]))
    return summ


# ---------------------------------------------------------------------------
# C07: concurrent histories, linearizability decided by TLC (TraceConc.tla)

def split_runs(path):
    runs, cur = [], None
    with open(path) as f:
        for i, line in enumerate(f, 1):
            if line.startswith('{"t":"reset"'):
                cur = [i, [line]]
                runs.append(cur)
            elif cur is not None:
                cur[1].append(line)
    return runs


def split_by_key(lines):
    """Per-key sub-histories of one run of single-key operations (linearizability is local: the run is
    linearizable iff each of them is)."""
    evs = [json.loads(x) for x in lines]
    keys, by_client = [], {}
    for e in evs:
        if e["t"] == "inv":
            k = json.dumps(e["op"].get("k"))
            if k not in keys:
                keys.append(k)
    out = []
    for k in keys:
        sub, cur = [], {}
        for e in evs:
            if e["t"] == "reset":
                sub.append(e)
            elif e["t"] == "inv":
                cur[e["c"]] = json.dumps(e["op"].get("k")) == k
                if cur[e["c"]]:
                    sub.append(e)
            elif e["t"] == "res":
                if cur.get(e["c"]):
                    sub.append(e)
            elif e["t"] == "final":
                f = dict(e)
                f["objs"] = [o for o in e.get("objs", []) if json.dumps(o.get("k")) == k]
                sub.append(f)
        out.append([json.dumps(x, separators=(",", ":")) + "\n" for x in sub])
    return out


def validate_conc(work, trace, witness=False, timeout=600):
    """Returns (verdict, at): verdict in accepted | rejected | inconclusive."""
    if witness:
        # first the restricted search (effects only at the operation's own invocation or response): quick, and a
        # witness it finds is a witness; then the full depth-first search
        cfg = "TraceConc.e.cfg"
        if not os.path.exists(work.path(cfg)):
            write_cfg(work.path(cfg), {}, spec="SpecEdge", invariants=["NotDone"])
        res = run_tlc(work, "TraceConc.tla", cfg, workers=1, timeout=min(timeout, 60), heap="2g",
                      java_props=["-Dtlc2.tool.queue.IStateQueue=StateDeque"],
                      env=dict(os.environ, TRACE=os.path.abspath(trace)))
        if "Invariant NotDone is violated" in "\n".join(res.log):
            return "accepted", None, res
        cfg = "TraceConc.w.cfg"
        if not os.path.exists(work.path(cfg)):
            write_cfg(work.path(cfg), {}, invariants=["NotDone"])
        res = run_tlc(work, "TraceConc.tla", cfg, workers=1, timeout=timeout, heap="2g",
                      java_props=["-Dtlc2.tool.queue.IStateQueue=StateDeque"],
                      env=dict(os.environ, TRACE=os.path.abspath(trace)))
        text = "\n".join(res.log)
        if "Invariant NotDone is violated" in text:
            return "accepted", None, res
        if "Model checking completed. No error has been found." in text:
            return "rejected", None, res
        return "inconclusive", None, res
    cfg = "TraceConc.cfg"
    write_cfg(work.path(cfg), {}, constraint="HighWater", postcondition="Accepted")
    os.environ["TRACE"] = os.path.abspath(trace)
    res = run_tlc(work, "TraceConc.tla", cfg, workers=1, timeout=timeout)
    text = "\n".join(res.log)
    m = re.search(r'"REJECTED-AT",\s*(\d+),\s*(\d+)', text)
    if m:
        return "rejected", int(m.group(1)), res
    if "Model checking completed. No error has been found." in text and res.rc == 0:
        return "accepted", None, res
    return "inconclusive", None, res


def build_server_binary():
    """Builds /repo/cmd/gofakes3 (no hooks needed) for the kill -9 runs."""
    import hashlib
    out = os.path.join(VERIF, ".work", "gofakes3bin" + ("" if REPO == "/repo" else "-" + hashlib.sha1(REPO.encode()).hexdigest()[:8]))
    p = subprocess.run(["go", "build", "-o", out, "./cmd/gofakes3"], cwd=REPO, env=GOENV, capture_output=True, text=True)
    if p.returncode != 0:
        raise Infra("building cmd/gofakes3 failed:\n" + p.stderr)
    return out


def conc_stage(rep, work, name, systems, clients, runs, ops, keys, gated, race=False, witness=False, timeout=900, seq=0,
               kill_rounds=0, partrace=0, local=False, big="", sched="", programs=""):
    tag = re.sub(r"\W", "_", name)
    trace = work.path("conc.%s.ndjson" % tag)
    out = work.path("conc.%s.json" % tag)
    binary = HARNESS + ("-race" if race else "")
    cmd = [binary, "conc", "--systems", ",".join(systems), "--seed", str(rep.seed), "--runs", str(runs),
           "--clients", ",".join(str(c) for c in clients), "--ops", str(ops), "--keys", str(keys),
           "--trace", trace, "--out", out, "--gated=%s" % ("true" if gated else "false"), "--partrace", str(partrace)]
    if local:
        cmd += ["--single-key-mix"]
    if big:
        cmd += ["--big", big]     # single-client histories that cross a count or size threshold (conc.go)
    if seq:
        cmd += ["--seq", str(seq)]
    if kill_rounds:
        cmd = [binary, "kill", "--bin", build_server_binary(), "--kinds", ",".join(systems), "--seed", str(rep.seed),
               "--runs", str(runs), "--rounds", str(kill_rounds), "--trace", trace, "--out", out]
    if sched:
        # every interleaving of the park points of small concurrent programs (sched.go)
        cmd = [binary, "sched", "--systems", ",".join(systems), "--seed", str(rep.seed), "--level", sched,
               "--trace", trace, "--out", out, "--max", "30000" if sched == "thorough" else "6000"]
        cmd += ["--programs", programs] if programs else ["--no-auto"]
    env = dict(os.environ, GORACE="halt_on_error=0 history_size=3")
    mtdir = None
    if "mem" in systems and not kill_rounds:
        # the in-memory backend also logs, under its lock, the state after every change: a second, linear-time,
        # decision of the same runs (the order of the linearization points is recorded, not searched)
        mtdir = tempfile.mkdtemp(prefix="memtrace.", dir=work.dir)
        env["VERIF_S3MEM_TRACE"] = mtdir
    updir = None
    if not kill_rounds:
        updir = tempfile.mkdtemp(prefix="uptrace.", dir=work.dir)
        env["VERIF_UPLOADER_TRACE"] = updir
    p = subprocess.run(cmd, capture_output=True, text=True, env=env, timeout=timeout)
    err = p.stderr
    os.makedirs(os.path.join(OUT, "replays"), exist_ok=True)
    import hashlib
    if "DATA RACE" in err:
        # the race detector is the observation channel for the race clause
        first = err[err.index("WARNING: DATA RACE"):][:6000]
        in_repo = "/repo/" in first or "gofakes3" in first
        if in_repo:
            rp = os.path.join(OUT, "replays", rep.prop + "-race-%s.txt" % hashlib.sha1(first.encode()).hexdigest()[:16])
            with open(rp, "w") as f:
                f.write(first)
            fid = classify(rep.prop, ",".join(systems), "Race", first)
            if fid:
                rep.known[fid] = rep.known.get(fid, 0) + 1
            else:
                rep.violations.append((rp, "data race reported by the Go race detector:\n" + "\n".join(first.splitlines()[:14])))
    raced = "DATA RACE" in err
    if p.returncode != 0 and not (raced and os.path.exists(out)):
        if "fatal error:" in err or "panic:" in err:
            at = min([i for i in (err.find("fatal error:"), err.find("panic:")) if i >= 0])
            first = err[at:][:4000]
            if "johannesboyne/gofakes3" not in first and REPO + "/" not in first:
                # the harness itself crashed (no frame of the code under test in the trace): not a verdict
                raise Infra("the harness crashed:\n" + first[:2000])
            rp = os.path.join(OUT, "replays", rep.prop + "-fatal-%s.txt" % hashlib.sha1(first.encode()).hexdigest()[:16])
            with open(rp, "w") as f:
                f.write(first)
            rep.violations.append((rp, "the server code died under concurrent requests: " + first.splitlines()[0]))
            return
        raise Infra("harness conc failed (rc=%s):\n%s" % (p.returncode, err[-3000:]))
    with open(out) as f:
        summ = json.load(f)
    for pr in summ.get("problems") or []:
        fid = classify(rep.prop, ",".join(systems), "Deadlock", pr)
        if fid:
            rep.known[fid] = rep.known.get(fid, 0) + 1
        else:
            rp = os.path.join(OUT, "replays", rep.prop + "-hang-%s.txt" % hashlib.sha1(pr.encode()).hexdigest()[:16])
            with open(rp, "w") as f:
                f.write(pr)
            rep.violations.append((rp, pr))
    if mtdir:
        memtrace_validate(rep, work, name + " (s3mem state trace)", mtdir)
    if updir and any(fn.endswith(".ndjson") and os.path.getsize(os.path.join(updir, fn)) for fn in os.listdir(updir)):
        memtrace_validate(rep, work, name + " (uploader state trace)", updir, module="TraceUp")
    cur = trace
    rejected, inconclusive = [], 0
    vstates = vtrans = 0
    if witness and os.path.exists(cur) and os.path.getsize(cur) > 0:
        # many clients: first-witness (depth-first) search, one history at a time, several TLC processes side by side;
        # a history without a witness inside the time limit is inconclusive, never a violation
        from concurrent.futures import ThreadPoolExecutor
        write_cfg(work.path("TraceConc.w.cfg"), {}, invariants=["NotDone"])
        jobs = []
        for i, (first, lines) in enumerate(split_runs(cur)):
            # single-key operation mix: one sub-history per key (the run's verdict is the conjunction)
            for j, part in enumerate(split_by_key(lines) if local else [lines]):
                single = work.path("conc.%s.w%d_%d.ndjson" % (tag, i, j))
                with open(single, "w") as f:
                    f.writelines(part)
                jobs.append((single, part))
        with ThreadPoolExecutor(max_workers=6) as ex:
            results = list(ex.map(lambda j: validate_conc(work, j[0], witness=True, timeout=min(timeout, 150)), jobs))
        for (single, lines), (v, _, r2) in zip(jobs, results):
            vstates += r2.distinct
            vtrans += r2.generated
            if v == "rejected":
                rejected.append(lines)
            elif v == "inconclusive":
                inconclusive += 1
        cur = None
    for attempt in range(8):
        if not cur or not os.path.exists(cur) or os.path.getsize(cur) == 0:
            break
        verdict, at, res = validate_conc(work, cur, witness=witness, timeout=timeout)
        vstates += res.distinct
        vtrans += res.generated
        if verdict == "accepted":
            break
        runs_ = split_runs(cur)
        if verdict == "inconclusive" or at is None:
            # decide run by run
            keep = []
            for first, lines in runs_:
                single = work.path("conc.%s.single.ndjson" % tag)
                with open(single, "w") as f:
                    f.writelines(lines)
                v, _, r2 = validate_conc(work, single, witness=witness, timeout=min(timeout, 240))
                vstates += r2.distinct
                vtrans += r2.generated
                if v == "rejected":
                    rejected.append(lines)
                elif v == "inconclusive":
                    inconclusive += 1
            break
        bad = None
        for first, lines in runs_:
            if first <= at < first + len(lines):
                bad = (first, lines)
        if bad is None:
            bad = runs_[-1]
        # confirm on the run alone (exact, breadth-first)
        single = work.path("conc.%s.single.ndjson" % tag)
        with open(single, "w") as f:
            f.writelines(bad[1])
        v, at2, r2 = validate_conc(work, single, witness=False, timeout=min(timeout, 300))
        if v == "rejected":
            rejected.append((bad[1], at2))
        elif v == "inconclusive":
            inconclusive += 1
        nxt = work.path("conc.%s.%d.ndjson" % (tag, attempt))
        with open(nxt, "w") as f:
            for first, lines in runs_:
                if first != bad[0]:
                    f.writelines(lines)
        cur = nxt
    if inconclusive and not witness:
        # an exact (breadth-first) validation that does not finish is a defect of the machinery, not a pass
        raise Infra("stage %s: %d histor%s could not be decided by the exact search (TLC error or timeout)" % (
            name, inconclusive, "y" if inconclusive == 1 else "ies"))
    vr = TLCResult()
    vr.distinct, vr.generated = vstates, vtrans
    rep.add_tlc(name, vr)
    rep.traces += summ["runs"] - len(rejected) - inconclusive
    rep.stages.append({"stage": name, "runs": summ["runs"], "events": summ["events"], "per_system": summ.get("per_system"),
                       "clients": list(clients), "race_detector": race, "rejected": len(rejected), "inconclusive": inconclusive})
    if summ.get("schedules"):
        rep.stages[-1]["schedule_exploration"] = summ["schedules"]
    if len(rep.samples) < 2 and os.path.exists(trace):
        with open(trace) as f:
            rep.samples.append([json.loads(x) for x in f.readlines()[:6]])
    for item in rejected:
        lines, at2 = item if isinstance(item, tuple) else (item, None)
        head = json.loads(lines[0])
        desc = "history of run on %s (%s) is not linearizable" % (head.get("sys"), head.get("scenario") or "free-running clients")
        if at2:
            evs = lines[max(0, at2 - 3):at2 + 1]
            desc += "; no linearization explains event %d: %s" % (at2, " | ".join(x.strip()[:200] for x in evs))
        fid = classify(rep.prop, head.get("sys", ""), "Conc:" + (head.get("scenario") or "free"), desc)
        if fid:
            rep.known[fid] = rep.known.get(fid, 0) + 1
            continue
        rp = os.path.join(OUT, "replays", rep.prop + "-conc-%s.ndjson" % hashlib.sha1("".join(lines).encode()).hexdigest()[:16])
        with open(rp, "w") as f:
            f.writelines(lines)
        rep.violations.append((rp, desc))
    log("stage %-28s %d runs / %d events on %s clients %s race=%s: rejected %d, inconclusive %d" % (
        name, summ["runs"], summ["events"], ",".join(systems), clients, race, len(rejected), inconclusive))


# ---------------------------------------------------------------------------
# C07: the front end's step structure (MC_FrontEnd.tla) and the auto-bucket option (finding F35)

FRONTEND_PROGRAMS = ["put-deletebucket-headbucket", "put-deletebucket-get", "put-put-get", "put-delete-head",
                     "recreate-put", "two-by-two"]


def frontend_stage(rep, work, name, systems):
    """(1) TLC checks on the model of the front end's step structure (existence check / creation of a missing bucket /
    call, one action each) that every request takes effect atomically under every interleaving -- it does without the
    auto-bucket option, and TLC finds the counterexamples with it.  (2) The schedule explorer drives the auto-bucket
    programs through the real code under every interleaving; the histories are decided by TraceConc against the
    front end's actual, stepwise design (every one must be explained).  (3) The history in which a PUT with the
    auto-bucket option is answered NoSuchBucket -- TLC's counterexample, found among the recorded ones by its
    schedule -- is decided once more against the atomic reading of the request: rejected, it is finding F35."""
    import hashlib
    total = TLCResult()
    design = {}
    for auto in (False, True):
        for prog in FRONTEND_PROGRAMS:
            for exists in (True, False):
                cfgfile = "MC_FrontEnd.%s.%s.%s.cfg" % (prog, auto, exists)
                write_cfg(work.path(cfgfile), dict(Auto=auto, ProgName=prog, Exists=exists), invariants=["Atomic"])
                res = run_tlc(work, "MC_FrontEnd.tla", cfgfile, workers=2, timeout=300)
                total.distinct += res.distinct
                total.generated += res.generated
                text = "\n".join(res.log)
                if "Invariant Atomic is violated" in text:
                    verdict = "violated"
                elif "Model checking completed. No error has been found." in text:
                    verdict = "holds"
                else:
                    raise Infra("MC_FrontEnd %s: TLC did not finish:\n%s" % (cfgfile, "\n".join(res.log[-20:])))
                design["%s auto=%s exists=%s" % (prog, auto, exists)] = verdict
                if not auto and verdict != "holds":
                    # without the option the stepwise front end must be atomic: otherwise the model of it is wrong
                    raise Infra("MC_FrontEnd: Atomic violated without the auto-bucket option (%s)" % cfgfile)
    rep.add_tlc(name + " (design)", total)
    rep.stages.append({"stage": name + " (design)", "module": "MC_FrontEnd", "invariant": "Atomic",
                       "configurations": len(design),
                       "holds": sorted(k for k, v in design.items() if v == "holds"),
                       "violated (auto-bucket option only: finding F35)": sorted(k for k, v in design.items() if v == "violated")})
    log("stage %-28s MC_FrontEnd: Atomic holds in %d configurations, violated in %d (auto-bucket only)" % (
        name, sum(v == "holds" for v in design.values()), sum(v == "violated" for v in design.values())))
    # (2) the real code under every schedule of the auto-bucket programs, against the stepwise design
    conc_stage(rep, work, name, systems, [3], runs=0, ops=0, keys=1, gated=False, sched="quick",
               programs="auto-put-deletebucket-head,auto-put-put-get", timeout=900)
    # (3) TLC's counterexample on the code: check 1, check 2, DeleteBucket 2, PutObject 1 -> NoSuchBucket
    tag = re.sub(r"\W", "_", name)
    trace = work.path("conc.%s.ndjson" % tag)
    witness = None
    for first, lines in split_runs(trace):
        head = json.loads(lines[0])
        if "auto-put-deletebucket-head:1:start,2:start,2:DeleteBucket,1:PutObject" not in (head.get("scenario") or ""):
            continue
        evs = [json.loads(x) for x in lines]
        if any(e.get("t") == "res" and e.get("c") == "1" and e["r"].get("code") == "NoSuchBucket" for e in evs):
            witness = (head, lines)
            break
    if witness:
        head, lines = witness
        head["cfg"]["autosteps"] = False          # the atomic reading: the request as ONE transition (S3!Step with cfg.auto)
        single = work.path("conc.%s.f35.ndjson" % tag)
        with open(single, "w") as f:
            f.write(json.dumps(head) + "\n")
            f.writelines(lines[1:])
        v, at, _ = validate_conc(work, single, witness=False, timeout=120)
        if v == "inconclusive":
            raise Infra("stage %s: the atomic reading of the auto-bucket witness could not be decided" % name)
        if v == "rejected":
            desc = ("auto-bucket option: history of run on %s (%s): PutObject answered NoSuchBucket although the option "
                    "creates missing buckets; no sequential order of the requests explains it" % (head.get("sys"), head.get("scenario")))
            fid = classify(rep.prop, head.get("sys", ""), "Conc:auto-bucket", desc)
            if fid:
                rep.known[fid] = rep.known.get(fid, 0) + 1
            else:
                rp = os.path.join(OUT, "replays", rep.prop + "-conc-%s.ndjson" % hashlib.sha1("".join(lines).encode()).hexdigest()[:16])
                with open(rp, "w") as f:
                    f.writelines(lines)
                rep.violations.append((rp, desc))
    log("stage %-28s auto-bucket witness on the code: %s" % (name, "reproduced" if witness else "not observed"))


# ---------------------------------------------------------------------------
# C09: request grammar -> observations -> TraceReq.tla

def fuzz_stage(rep, work, name, constants, systems, states, opts="", every=1, timeout=1800, mem_gb=16):
    import hashlib, resource
    tag = re.sub(r"\W", "_", name)
    cfgfile = "MC_Requests.%s.cfg" % tag
    write_cfg(work.path(cfgfile), constants, invariants=["EmitInv"])
    trace = work.path("req.%s.ndjson" % tag)
    out = work.path("req.%s.json" % tag)
    progress = work.path("req.%s.progress" % tag)
    cmd = [HARNESS, "fuzzreq", "--systems", ",".join(systems), "--states", ",".join(states), "--opts", opts,
           "--seed", str(rep.seed), "--trace", trace, "--out", out, "--progress", progress, "--every", str(every),
           "--workers", "16"]

    def limit():
        resource.setrlimit(resource.RLIMIT_AS, (mem_gb << 30, mem_gb << 30))
    p = subprocess.Popen(cmd, stdin=subprocess.PIPE, stderr=subprocess.PIPE, bufsize=1 << 20, preexec_fn=limit)
    errbuf = []
    t = threading.Thread(target=lambda: errbuf.extend(p.stderr.readlines()), daemon=True)
    t.start()
    try:
        res = run_tlc(work, "MC_Requests.tla", cfgfile, sink=p.stdin, workers=4, timeout=timeout)
    except Infra:
        res = None
    try:
        p.stdin.close()
    except Exception:
        pass
    rc = p.wait()
    t.join(timeout=5)
    err = b"".join(errbuf).decode("utf-8", "replace")
    os.makedirs(os.path.join(OUT, "replays"), exist_ok=True)
    if rc != 0:
        # the process under test died: attribute to the request in flight and confirm in a fresh process
        inflight = []
        try:
            with open(progress) as f:
                for line in f.read().replace("\x00", " ").split("\n"):
                    line = line.strip()
                    if line:
                        try:
                            inflight.append(json.loads(line))
                        except ValueError:
                            pass
        except Exception:
            pass
        if inflight and ("fatal error" in err or "panic" in err or "signal" in err or rc < 0):
            for culprit in inflight:
                one = work.path("culprit.json")
                with open(one, "w") as f:
                    json.dump(culprit, f)
                p2 = subprocess.run([HARNESS, "fuzzreq", "--one", one, "--opts", opts, "--seed", str(rep.seed)],
                                    capture_output=True, text=True, preexec_fn=limit, timeout=300)
                if p2.returncode == 0:
                    continue
                rp = os.path.join(OUT, "replays", "C09-fatal-%s.json" % hashlib.sha1(json.dumps(culprit, sort_keys=True).encode()).hexdigest()[:16])
                with open(rp, "w") as f:
                    json.dump({"request": culprit, "stderr": p2.stderr[-3000:]}, f, indent=1)
                first = [l for l in p2.stderr.splitlines() if "fatal error" in l or "panic:" in l][:1]
                desc = "the whole process died serving %s on %s: %s" % (json.dumps(culprit.get("req")), culprit.get("sys"), first[0] if first else "killed")
                fid = classify(rep.prop, culprit.get("sys", ""), "Fatal", desc)
                if fid:
                    rep.known[fid] = rep.known.get(fid, 0) + 1
                else:
                    rep.violations.append((rp, desc))
                return
        with open(os.path.join(VERIF, ".work", "last_fuzz_stderr.txt"), "w") as f:
            f.write("inflight parsed: %d\n" % len(inflight))
            f.write(err)
        frames = [l for l in err.splitlines() if "/repo/" in l][:3]
        if ("fatal error" in err or "panic:" in err) and frames:
            # the process died inside the code under test; no single in-flight request reproduces it on a
            # fresh store (it needs the state earlier requests left), but the death itself is real behaviour
            first = [l for l in err.splitlines() if "fatal error" in l or "panic:" in l][:1]
            desc = "the whole process died (%s) in %s while serving one of: %s" % (
                first[0] if first else "killed", frames[0].strip(), json.dumps([c.get("req") for c in inflight])[:600])
            rp = os.path.join(OUT, "replays", "C09-fatal-%s.txt" % hashlib.sha1(desc.encode()).hexdigest()[:16])
            with open(rp, "w") as f:
                f.write(desc + "\n\n" + err[:6000])
            fid = classify(rep.prop, ",".join(systems), "Fatal", desc)
            if fid:
                rep.known[fid] = rep.known.get(fid, 0) + 1
            else:
                rep.violations.append((rp, desc))
            return
        raise Infra("fuzzreq died (rc=%s) and the death could not be attributed/confirmed:\n%s" % (rc, err[-3000:]))
    if res is None or not res.ok:
        raise Infra("MC_Requests failed:\n" + ("\n".join(res.log[-20:]) if res else ""))
    with open(out) as f:
        summ = json.load(f)
    rep.add_tlc(name + "/grammar", res)
    # judge the observations
    def sig(ev):
        r = ev["req"]
        return json.dumps([ev["sys"], ev["state"], r["method"], r["path"], r["subs"], r["pname"], r["pclass"], r["hdr"], r["body"]])
    cur = trace
    rejected = []
    vstates = vtrans = 0
    for attempt in range(40):
        if os.path.getsize(cur) == 0:
            break
        ok, at, vres = validate_trace(work, "TraceReq", cur, timeout=timeout)
        vstates += vres.distinct
        vtrans += vres.generated
        if ok:
            break
        with open(cur) as f:
            lines = f.readlines()
        bad = json.loads(lines[at - 1])
        rejected.append(bad)
        # drop every observation of the same failure class so that the rest is judged too
        def cls(ev):
            return (ev["sys"], ev["panic"], ev["timeout"], ev["st"], ev["body"], ev["code"], ev["canary"] == "ok",
                    ev["req"]["method"] if ev["body"] == "other" else "", ev.get("detail", "")[:60])
        bc = cls(bad)
        nxt = work.path("req.%s.%d.ndjson" % (tag, attempt))
        with open(nxt, "w") as f:
            for l in lines:
                if cls(json.loads(l)) != bc:
                    f.write(l)
        cur = nxt
    else:
        rep.extra.setdefault("notes", []).append("stage %s: more than 40 distinct failure classes" % name)
    vr = TLCResult()
    vr.distinct, vr.generated = vstates, vtrans
    rep.add_tlc(name + "/judge", vr)
    rep.traces += summ["executed"]
    rep.steps += summ["executed"]
    rep.stages.append({"stage": name, "grammar_requests": summ["requests"], "executed": summ["executed"],
                       "per_system": summ["per_system"], "stores_built": summ["stores_built"], "rejected_classes": len(rejected)})
    if len(rep.samples) < 3 and os.path.exists(trace):
        with open(trace) as f:
            for i, l in enumerate(f):
                if i % 5003 == 17 and len(rep.samples) < 3:
                    rep.samples.append(json.loads(l))
    for bad in rejected:
        # confirm in a fresh process
        one = work.path("one.json")
        with open(one, "w") as f:
            json.dump(bad, f)
        p2 = subprocess.run([HARNESS, "fuzzreq", "--one", one, "--opts", opts, "--seed", str(rep.seed)],
                            capture_output=True, text=True, preexec_fn=limit, timeout=300)
        confirmed = False
        try:
            ob2 = json.loads(p2.stdout.strip().splitlines()[-1])
            confirmed = (ob2["panic"], ob2["timeout"], ob2["st"], ob2["body"], ob2["code"], ob2["canary"] == "ok") == \
                        (bad["panic"], bad["timeout"], bad["st"], bad["body"], bad["code"], bad["canary"] == "ok")
        except Exception:
            confirmed = p2.returncode != 0
        what = "panic" if bad["panic"] else "no response (hang)" if bad["timeout"] else \
            ("canary failed: " + bad["canary"]) if bad["canary"] != "ok" else \
            "status %d with a %s body%s" % (bad["st"], bad["body"], (" code " + bad["code"]) if bad["code"] else "")
        desc = "%s/%s: %s %s subs=%s %s=%s hdr=%s body=%s -> %s %s" % (
            bad["sys"], bad["state"], bad["req"]["method"], bad["req"]["path"], bad["req"]["subs"], bad["req"]["pname"],
            bad["req"]["pclass"], json.dumps(bad["req"]["hdr"]), bad["req"]["body"], what, bad.get("detail", "")[:160])
        if not confirmed:
            rep.extra.setdefault("unconfirmed", []).append(desc)
            continue
        fid = classify(rep.prop, bad["sys"], "Req", desc)
        if fid:
            rep.known[fid] = rep.known.get(fid, 0) + 1
            continue
        rp = os.path.join(OUT, "replays", "C09-req-%s.json" % hashlib.sha1(json.dumps(bad, sort_keys=True).encode()).hexdigest()[:16])
        with open(rp, "w") as f:
            json.dump(bad, f, indent=1)
        rep.violations.append((rp, desc))
    log("stage %-28s grammar %d requests, executed %d on %s; rejected classes %d" % (
        name, summ["requests"], summ["executed"], ",".join(systems), len(rejected)))
