------------------------------ MODULE TraceConc ------------------------------
(***************************************************************************)
(* C07: linearizability of recorded concurrent histories, decided by TLC.  *)
(*                                                                         *)
(* The trace holds, in the order of one atomic counter read by the harness *)
(* immediately before each call and immediately after it returned:         *)
(*   reset : a fresh system (cfg, initial buckets)                         *)
(*   inv   : client c invokes op   (server-chosen ids back-filled)         *)
(*   res   : client c received reply r                                     *)
(*   final : quiescent snapshot of the store                               *)
(* Between consuming events the specification may take silent steps:       *)
(*   Lin(c)      -- the atomic effect of c's pending operation happens now *)
(*                  (S3!Step chooses state and reply)                      *)
(*   CopyRd/CopyWr(c) -- copy is two critical sections in the code: the    *)
(*                  source is read, later the destination is written       *)
(* A `res` event is consumable only if the reply chosen at the             *)
(* linearization point matches what the client saw.  The history is        *)
(* linearizable iff some interleaving of silent steps consumes the whole   *)
(* trace; reaching the end is reported by violating the invariant NotDone  *)
(* (so that TLC stops at the first witness).                               *)
(***************************************************************************)
EXTENDS S3, Json, IOUtils

Trace == ndJsonDeserialize(IOEnv.TRACE)

VARIABLES l, st, cfg, pend
vars == <<l, st, cfg, pend>>

Ev == Trace[l]

CfgOf(c) == [DefaultCfg EXCEPT !.versioned = c.versioned, !.paginate = c.paginate, !.single = c.single,
                            !.auto = IF "auto" \in DOMAIN c THEN c.auto ELSE FALSE]
            @@ [autosteps |-> IF "autosteps" \in DOMAIN c THEN c.autosteps ELSE FALSE]
InitOf(ev) ==
  LET bs == ToSet(ev.buckets) IN
  [InitState EXCEPT !.bk = [b \in bs |-> [ver |-> ev.versioning, objs |-> <<>>]]]

Init == /\ TLCSet(1, 0)
        /\ l = 1 /\ st = InitState /\ cfg = DefaultCfg /\ pend = <<>>

HighWater == TLCSet(1, IF l > TLCGet(1) THEN l ELSE TLCGet(1))

Reset == /\ l <= Len(Trace) /\ Ev.t = "reset"
         /\ pend = <<>>
         /\ st' = InitOf(Ev) /\ cfg' = CfgOf(Ev.cfg) /\ pend' = <<>>
         /\ l' = l + 1

Inv == /\ l <= Len(Trace) /\ Ev.t = "inv"
       /\ Ev.c \notin DOMAIN pend
       /\ pend' = Upd(pend, Ev.c, [op |-> Ev.op, ph |-> "inv"])
       /\ l' = l + 1 /\ UNCHANGED <<st, cfg>>

\* C15: the server process was killed and restarted on the same storage.  Every
\* operation still pending has either taken effect (a silent Lin step before
\* this event) or not at all; its reply is lost either way.  Operations whose
\* reply was received were linearized before: their effect must have survived.
Crash == /\ l <= Len(Trace) /\ Ev.t = "crash"
         /\ pend' = <<>>
         /\ l' = l + 1 /\ UNCHANGED <<st, cfg>>

\* ---- the auto-bucket option as the front end performs it (MC_FrontEnd.tla) ----
\* With cfg.autosteps a bucket-scoped request is not one transition but up to three, as in the code: the existence
\* check, the creation of a missing bucket, and the call (which the backend answers without creating anything).
\* Histories recorded with the option are decided against this, the front end's actual design; that the design is
\* not atomic is finding F35 (shown on the model by MC_FrontEnd, on the code by the schedule explorer).
Decomposed(c) == "autosteps" \in DOMAIN cfg /\ cfg.autosteps /\ cfg.auto /\ pend[c].op.op # "CreateBucket"
Phase(c, p) == pend' = [pend EXCEPT ![c] = [@ EXCEPT !.ph = p]]
Reply(c, r) == pend' = [pend EXCEPT ![c] = [op |-> @.op, ph |-> "lin", r |-> r]]
AutoCheck(c) ==
  /\ pend[c].ph = "inv" /\ Decomposed(c)
  /\ Phase(c, IF HasB(st, pend[c].op.b) THEN "chk" ELSE "miss")
  /\ UNCHANGED <<l, st, cfg>>
AutoCreate(c) ==
  /\ pend[c].ph = "miss"
  /\ IF HasB(st, pend[c].op.b)             \* created by somebody else meanwhile: reported as NoSuchBucket
       THEN st' = st /\ Reply(c, [st |-> 404, code |-> "NoSuchBucket"])
       ELSE st' = [st EXCEPT !.bk = Upd(@, pend[c].op.b, NewBucket)] /\ Phase(c, "chk")
  /\ UNCHANGED <<l, cfg>>
AutoCall(c) ==
  /\ pend[c].ph = "chk" /\ pend[c].op.op # "CopyObject"
  /\ IF pend[c].op.op = "HeadBucket"
       THEN st' = st /\ Reply(c, [st |-> 200, code |-> ""])
       ELSE \E res \in Step(st, [cfg EXCEPT !.auto = FALSE], pend[c].op) : st' = res.st /\ Reply(c, res.r)
  /\ UNCHANGED <<l, cfg>>
AutoStep(c) == AutoCheck(c) \/ AutoCreate(c) \/ AutoCall(c)

\* ---- silent linearization steps ----
Lin(c) ==
  /\ pend[c].ph = "inv" /\ pend[c].op.op # "CopyObject" /\ ~Decomposed(c)
  /\ \E res \in Step(st, cfg, pend[c].op) :
       /\ st' = res.st
       /\ pend' = [pend EXCEPT ![c] = [op |-> @.op, ph |-> "lin", r |-> res.r]]
  /\ UNCHANGED <<l, cfg>>

CopyRd(c) ==
  /\ pend[c].ph = (IF Decomposed(c) THEN "chk" ELSE "inv") /\ pend[c].op.op = "CopyObject"
  /\ LET op == pend[c].op
         rd == IF HasB(st, op.b) THEN CopyRead(st, cfg, op) ELSE [ok |-> FALSE, code |-> "NoSuchBucket"] IN
     pend' = [pend EXCEPT ![c] = IF rd.ok THEN [op |-> op, ph |-> "mid", v |-> rd.v]
                                 ELSE [op |-> op, ph |-> "lin", r |-> [st |-> StatusOf(rd.code), code |-> rd.code]]]
  /\ UNCHANGED <<l, st, cfg>>
CopyWr(c) ==
  /\ pend[c].ph = "mid"
  /\ LET op == pend[c].op IN
     IF ~HasB(st, op.b)
       THEN /\ st' = st
            /\ pend' = [pend EXCEPT ![c] = [op |-> op, ph |-> "lin", r |-> [st |-> 404, code |-> "NoSuchBucket"]]]
       ELSE \E w \in StoreSet(st, cfg, op.b, op.k, pend[c].v.body, <<>>, FALSE, HiddenVid(st)) :
              /\ st' = w.st
              /\ pend' = [pend EXCEPT ![c] = [op |-> op, ph |-> "lin",
                                              r |-> [st |-> 200, code |-> "", xetag |-> pend[c].v.body]]]
  /\ UNCHANGED <<l, cfg>>

\* ---- matching the reply the client saw ----
FieldOK(f, e, o) ==
  CASE f = "st"   -> o.st = e.st
    [] f = "code" -> e.code = "*" \/ o.code = "?" \/ o.code = e.code
    [] f \in {"body", "etag", "xetag", "cetag"} -> f \in DOMAIN o /\ o[f] = e[f]
    [] f = "vid"  -> (e.vid # "" /\ SubSeq(e.vid, 1, 1) \in {"?", "*"}) \/ ("vid" \in DOMAIN o /\ o.vid = e.vid)
    [] f = "status" -> "status" \in DOMAIN o /\ o.status = e.status
    [] f = "keys" -> "keys" \in DOMAIN o /\
                     o.keys = [i \in 1..Len(e.keys) |-> [k |-> e.keys[i].k, body |-> e.keys[i].body]]
    [] OTHER -> TRUE
Matches(e, o) ==
  IF "alts" \in DOMAIN e
    THEN \E a \in e.alts : (a.st = 0 \/ a.st = o.st) /\ (a.code \in {"*", "!"} \/ o.code = "?" \/ a.code = o.code)
    ELSE \A f \in DOMAIN e : FieldOK(f, e, o)

Res == /\ l <= Len(Trace) /\ Ev.t = "res"
       /\ Ev.c \in DOMAIN pend /\ pend[Ev.c].ph = "lin"
       /\ Matches(pend[Ev.c].r, Ev.r)
       /\ pend' = Del(pend, Ev.c)
       /\ l' = l + 1 /\ UNCHANGED <<st, cfg>>

\* quiescent end: what a client reads back equals the model state after the
\* chosen linearization (no lost update, nothing torn)
Final == /\ l <= Len(Trace) /\ Ev.t = "final"
         /\ pend = <<>>
         /\ \A i \in 1..Len(Ev.objs) :
              LET o == Ev.objs[i] IN
              IF o.present THEN HasB(st, o.b) /\ Live(Stack(st, o.b, o.k)) /\ Cur(Stack(st, o.b, o.k)).body = o.body
              ELSE IF HasB(st, o.b) THEN ~Live(Stack(st, o.b, o.k)) ELSE TRUE
         /\ \A b \in DOMAIN st.bk : \A k \in LiveKeys(st, b) :
              \E i \in 1..Len(Ev.objs) : Ev.objs[i].b = b /\ Ev.objs[i].k = k /\ Ev.objs[i].present
         /\ l' = l + 1 /\ UNCHANGED <<st, cfg, pend>>

\* Silent steps are taken only immediately before a response (or the final snapshot, or a crash) is
\* consumed.  Nothing is lost: an invocation only adds to pend and neither reads nor writes st, so a silent
\* step commutes with every later invocation event and can be postponed to the next event of another kind.
SilentOK == l <= Len(Trace) /\ Ev.t \in {"res", "final", "crash"}
Next == Reset \/ Inv \/ Res \/ Final \/ Crash
        \/ (SilentOK /\ \E c \in DOMAIN pend : Lin(c) \/ CopyRd(c) \/ CopyWr(c) \/ AutoStep(c))
Spec == Init /\ [][Next]_vars

\* A restricted search used first when there are many clients: an operation takes effect either right
\* after its own invocation or right before its own response was received.  Every behaviour of SpecEdge
\* is a behaviour of Spec, so a witness found here is a witness; finding none decides nothing.
AtOwnEdge(c) == \/ (l <= Len(Trace) /\ Ev.t = "res" /\ Ev.c = c)
                \/ (l > 1 /\ Trace[l - 1].t = "inv" /\ Trace[l - 1].c = c)
                \/ (l <= Len(Trace) /\ Ev.t \in {"final", "crash"})
NextEdge == Reset \/ Inv \/ Res \/ Final \/ Crash
            \/ (\E c \in DOMAIN pend : AtOwnEdge(c) /\ (Lin(c) \/ CopyRd(c) \/ CopyWr(c) \/ AutoStep(c)))
SpecEdge == Init /\ [][NextEdge]_vars

\* witness mode (many clients): with a depth-first queue TLC stops at the first
\* complete linearization by "violating" NotDone
NotDone == l <= Len(Trace)
\* accepted iff some behaviour consumed every event (HighWater, a CONSTRAINT,
\* tracks the furthest position reached; one worker)
Accepted == IF TLCGet(1) > Len(Trace) THEN TRUE
            ELSE PrintT(<<"REJECTED-AT", TLCGet(1), Len(Trace)>>) /\ FALSE
=============================================================================
