------------------------------ MODULE TraceReq ------------------------------
(***************************************************************************)
(* C09: judging observed responses to arbitrary requests.                  *)
(*                                                                         *)
(* An observation (one NDJSON event) records what the handler did with one *)
(* request: whether it returned at all (panic, timeout), the status, the   *)
(* kind of body, the S3 error code if the body is an error document, and   *)
(* the result of the canary that follows (correct requests on the same and *)
(* on another bucket, and an audit that read-only requests changed         *)
(* nothing).  The specification accepts the observation iff                *)
(*   - a complete response was produced (no panic, no hang),               *)
(*   - it is a success, or an error status whose body, when present, is an *)
(*     S3 error document whose code maps to that status (StatusOf),        *)
(*   - the canary answered correctly.                                      *)
(***************************************************************************)
EXTENDS S3, Json, IOUtils

Trace == ndJsonDeserialize(IOEnv.TRACE)
VARIABLE l
Ev == Trace[l]

KnownCodes == {"BadDigest", "BucketAlreadyExists", "BucketNotEmpty", "IllegalVersioningConfigurationException", "IncompleteBody",
               "IncorrectNumberOfFilesInPostRequest", "InlineDataTooLarge", "InvalidArgument", "InvalidBucketName", "InvalidDigest",
               "InvalidRange", "InvalidToken", "KeyTooLongError", "MalformedPOSTRequest", "InvalidPart", "InvalidPartOrder",
               "InvalidURI", "MetadataTooLarge", "MethodNotAllowed", "MalformedXML", "MissingContentLength", "NoSuchBucket",
               "NoSuchKey", "NoSuchUpload", "NoSuchVersion", "NotModified", "RequestTimeTooSkewed", "TooManyBuckets",
               "NotImplemented", "InternalError"}

\* MethodNotAllowed is 405 on S3 and 400 in gofakes3's table: either is consistent
StatusesOf(code) == IF code = "MethodNotAllowed" THEN {400, 405} ELSE {StatusOf(code)}

WellFormedReply(ev) ==
  /\ ~ev.panic /\ ~ev.timeout
  /\ ev.st \in 200..599
  /\ \/ ev.st < 400                                   \* success, redirect, NotModified
     \/ ev.body = "none"                              \* an error status without body
     \/ /\ ev.body = "s3error"                        \* or an S3 error document ...
        /\ ev.code \in KnownCodes
        /\ ev.st \in StatusesOf(ev.code)              \* ... whose code is consistent with the status

Observe == /\ l <= Len(Trace)
           /\ WellFormedReply(Ev)
           /\ Ev.canary = "ok"
           /\ l' = l + 1
Init == l = 1
Spec == Init /\ [][Observe]_l
Accepted ==
  LET d == TLCGet("stats").diameter IN
  IF d - 1 = Len(Trace) THEN TRUE ELSE PrintT(<<"REJECTED-AT", d, Len(Trace)>>) /\ FALSE
=============================================================================
