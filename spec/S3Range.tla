------------------------------ MODULE S3Range ------------------------------
(***************************************************************************)
(* C11: the meaning of a Range header on an object of `size` bytes.        *)
(*                                                                         *)
(* A bound is a record [inf, v]: a natural number v, or inf = TRUE for any *)
(* value not below 2^31 (every stored object is smaller, so all such       *)
(* values behave alike: "beyond the end").  r.kind:                        *)
(*   "closed" first-last   "open" first-   "suffix" -n                     *)
(*   "malformed" (anything else that is not a single byte range: bad unit, *)
(*                negative or non-numeric bounds, first > last, >= 2^63)   *)
(*   "multi"     (several ranges: a clean refusal)                         *)
(* Result: [ok |-> TRUE, first, last]  (bytes first..last, 0-based)        *)
(*      or [ok |-> FALSE] (416 InvalidRange).                              *)
(***************************************************************************)
EXTENDS Integers

Fin(i) == [inf |-> FALSE, v |-> i]
Inf    == [inf |-> TRUE, v |-> 0]
Ge(a, n) == a.inf \/ a.v >= n          \* bound a >= natural n
Gt(a, b) == IF b.inf THEN FALSE ELSE (a.inf \/ a.v > b.v)   \* a > b (inf = inf: not greater)
MinFin(a, n) == IF a.inf \/ a.v > n THEN n ELSE a.v

NoRange == [ok |-> FALSE]
ByteRange(size, r) ==
  CASE r.kind = "closed" ->
         IF Gt(r.first, r.last) \/ Ge(r.first, size) THEN NoRange
         ELSE [ok |-> TRUE, first |-> r.first.v, last |-> MinFin(r.last, size - 1)]
    [] r.kind = "open" ->
         IF Ge(r.first, size) THEN NoRange
         ELSE [ok |-> TRUE, first |-> r.first.v, last |-> size - 1]
    [] r.kind = "suffix" ->
         IF r.n.inf \/ r.n.v > size \/ r.n.v = 0 THEN NoRange
         ELSE [ok |-> TRUE, first |-> size - r.n.v, last |-> size - 1]
    [] OTHER -> NoRange

\* RangeSound: what C11 states about a satisfiable range
RangeSound(size, r) ==
  LET x == ByteRange(size, r) IN
  x.ok => /\ 0 <= x.first /\ x.first <= x.last /\ x.last <= size - 1
          /\ (r.kind = "closed" => x.first = r.first.v /\ (x.last = size - 1 \/ (~r.last.inf /\ x.last = r.last.v)))
          /\ (r.kind = "suffix" => x.last - x.first + 1 = r.n.v)
=============================================================================
