--------------------------------- MODULE S3 ---------------------------------
(***************************************************************************)
(* The S3 service as gofakes3 is meant to implement it, written as a       *)
(* transition FUNCTION so that one definition serves model checking, tour  *)
(* generation, trace validation and the linearizability search:            *)
(*                                                                         *)
(*    Step(st, cfg, op)  ==  set of [st |-> successor state, r |-> reply]  *)
(*                                                                         *)
(* A step is deterministic (singleton) except in the named don't-care      *)
(* regions (DESIGN section 5, rule 2), where the set has several members.  *)
(* `op` carries the request and the server-chosen identifiers (vid, uid)   *)
(* that the reply revealed; Step checks that those are fresh.              *)
(*                                                                         *)
(* st  = [bk   : bucket name -> [ver, objs : key -> Seq(version)],         *)
(*        up   : upload id -> [b, k, meta, parts : n -> body, ord],        *)
(*        vids : set of version ids ever issued,                           *)
(*        uids : set of upload ids ever issued,                            *)
(*        mpb  : set of buckets that ever had an upload initiated]         *)
(* version = [vid, nul, kind \in {"obj","dm"}, body, meta, mp]             *)
(*   in creation order; the last element is the current version.           *)
(*   nul = created while versioning was not Enabled (the "null" version).  *)
(* cfg = [versioned, auto, single, paginate, pageErr,                       *)
(*        suspDelete, suspNone, oldNull]   (the last three resolve          *)
(*        don't-care regions: "set" keeps every admissible outcome)         *)
(***************************************************************************)
EXTENDS S3Types

InitState == [bk |-> <<>>, up |-> <<>>, vids |-> {}, uids |-> {}, mpb |-> {}]
NewBucket == [ver |-> "None", objs |-> <<>>]

DefaultCfg == [versioned |-> TRUE, auto |-> FALSE, single |-> "", paginate |-> TRUE,
               pageErr |-> FALSE, suspDelete |-> "set", suspNone |-> "set", oldNull |-> "set",
               integrity |-> TRUE,
               bad |-> {}]      \* names that can never be buckets (the backends' internal names): not auto-created either

StatusOf(code) ==
  CASE code \in {"BucketAlreadyExists", "BucketNotEmpty"} -> 409
    [] code \in {"NoSuchBucket", "NoSuchKey", "NoSuchUpload", "NoSuchVersion"} -> 404
    [] code = "NotImplemented" -> 501
    [] code = "InvalidRange" -> 416
    [] code = "MissingContentLength" -> 411
    [] code = "InternalError" -> 500
    [] code = "NotModified" -> 304
    [] code = "RequestTimeTooSkewed" -> 403
    [] OTHER -> 400

R(st, r)      == [st |-> st, r |-> r]
Err(st, code) == {R(st, [st |-> StatusOf(code), code |-> code])}
\* several admissible refusals, state unchanged
ErrIn(st, codes) == {R(st, [alts |-> {[st |-> StatusOf(c), code |-> c] : c \in codes}])}
\* the server-chosen id of a version whose id no reply reveals (copy, multi-delete)
HiddenVid(st) == "?" \o ToString(Cardinality(st.vids) + 1)
Ok(st, r)     == {R(st, r)}

HasB(st, b)     == b \in DOMAIN st.bk
Stack(st, b, k) == Get(st.bk[b].objs, k, <<>>)
SetStack(st, b, k, s) ==
  [st EXCEPT !.bk[b].objs = IF s = <<>> THEN Del(@, k) ELSE Upd(@, k, s)]
Cur(s)          == s[Len(s)]
Live(s)         == s # <<>> /\ Cur(s).kind = "obj"
LiveKeys(st, b) == {k \in DOMAIN st.bk[b].objs : Live(st.bk[b].objs[k])}
AllKeys(st, b)  == DOMAIN st.bk[b].objs
DropNull(s)     == SelectSeq(s, LAMBDA v : ~v.nul)
RemoveVid(s, vid) == SelectSeq(s, LAMBDA v : v.vid # vid)
HasVid(s, vid)  == \E i \in 1..Len(s) : s[i].vid = vid
VerOf(s, vid)   == s[CHOOSE i \in 1..Len(s) : s[i].vid = vid]

\* bucket existence check shared by every bucket-scoped handler; with the
\* auto-bucket option a missing bucket springs into existence (not on the
\* single-bucket backend, which cannot create buckets)
Ensure(st, cfg, b) ==
  IF HasB(st, b) THEN [ok |-> TRUE, st |-> st]
  ELSE IF cfg.auto /\ cfg.single = "" /\ b \notin cfg.bad
         THEN [ok |-> TRUE, st |-> [st EXCEPT !.bk = Upd(@, b, NewBucket)]]
         ELSE [ok |-> FALSE, st |-> st]

Enabled(st, b) == st.bk[b].ver = "Enabled"

MkObj(vid, nul, body, meta, mp) ==
  [vid |-> vid, nul |-> nul, kind |-> "obj", body |-> body, meta |-> meta, mp |-> mp]
MkDm(vid, nul) ==
  [vid |-> vid, nul |-> nul, kind |-> "dm", body |-> <<>>, meta |-> <<>>, mp |-> FALSE]

\* ---- the write that every upload path ends in ----
\* returns [ok, st, vid]; vid = "" when the bucket is not Enabled
\* A write while versioning is not Enabled replaces the null version.  When
\* the null version is not the current one (it was superseded while Enabled)
\* S3 removes it; keeping it is admissible too (rule 2): C05 protects only
\* versions created while Enabled.
NullBases(cfg, s) ==
  LET cur  == IF s # <<>> /\ Cur(s).nul THEN SubSeq(s, 1, Len(s) - 1) ELSE s   \* a current null always goes
      drop == DropNull(s) IN
  IF cur = drop THEN {drop}
  ELSE CASE cfg.oldNull = "keep" -> {cur}
         [] cfg.oldNull = "drop" -> {drop}
         [] OTHER                -> {cur, drop}
StoreSet(st, cfg, b, k, body, meta, mp, vid) ==
  LET s == Stack(st, b, k) IN
  IF Enabled(st, b)
    THEN {[st  |-> [SetStack(st, b, k, Append(s, MkObj(vid, FALSE, body, meta, mp)))
                     EXCEPT !.vids = @ \cup {vid}],
           vid |-> vid]}
    ELSE {[st  |-> SetStack(st, b, k, Append(base, MkObj("null", TRUE, body, meta, mp))),
           vid |-> ""] : base \in NullBases(cfg, s)}
VidFresh(st, b, vid) == Enabled(st, b) => (vid # "" /\ vid # "null" /\ vid \notin st.vids)

\* ---- bucket operations ----
CreateBucket(st, cfg, op) ==
  IF "invalid" \in DOMAIN op THEN Err(st, "InvalidBucketName")      \* (C17 decides which names are valid)
  ELSE IF cfg.single # "" THEN Err(st, "NotImplemented")
  ELSE IF HasB(st, op.b) THEN Err(st, "BucketAlreadyExists")
  ELSE Ok([st EXCEPT !.bk = Upd(@, op.b, NewBucket)], [st |-> 200, code |-> ""])

HeadBucket(st, cfg, op) ==
  LET e == Ensure(st, cfg, op.b) IN
  IF ~e.ok THEN Err(st, "NoSuchBucket") ELSE Ok(e.st, [st |-> 200, code |-> ""])

\* (x-minio-force-delete: true removes the bucket together with everything in it; pending multipart
\* uploads are not part of the bucket's storage and stay.)
DeleteBucket(st, cfg, op) ==
  LET e == Ensure(st, cfg, op.b) IN
  IF ~e.ok THEN Err(st, "NoSuchBucket")
  ELSE IF "force" \in DOMAIN op /\ op.force
    THEN IF cfg.single = "" THEN Ok([e.st EXCEPT !.bk = Del(@, op.b)], [st |-> 204, code |-> ""])
         \* the one bucket of a single-bucket system cannot go away: it is emptied
         ELSE Ok([e.st EXCEPT !.bk[op.b].objs = <<>>], [st |-> 204, code |-> ""])
  ELSE IF cfg.single # "" THEN Err(e.st, "NotImplemented")
  ELSE IF AllKeys(e.st, op.b) # {} THEN Err(e.st, "BucketNotEmpty")
  ELSE Ok([e.st EXCEPT !.bk = Del(@, op.b)], [st |-> 204, code |-> ""])

ListBuckets(st, cfg, op) ==
  Ok(st, [st |-> 200, code |-> "", buckets |-> DOMAIN st.bk])

GetLocation(st, cfg, op) ==
  LET e == Ensure(st, cfg, op.b) IN
  IF ~e.ok THEN Err(st, "NoSuchBucket") ELSE Ok(e.st, [st |-> 200, code |-> ""])

\* ---- object operations ----
PutObject(st, cfg, op) ==      \* also the browser-form POST (op.op = "PostObject")
  LET e == Ensure(st, cfg, op.b) IN
  IF ~e.ok THEN Err(st, "NoSuchBucket")
  ELSE IF ~VidFresh(e.st, op.b, op.vid) THEN {}
  ELSE {R(w.st, [st |-> 200, code |-> "", etag |-> op.body, vid |-> w.vid])
          : w \in StoreSet(e.st, cfg, op.b, op.k, op.body, op.meta, FALSE, op.vid)}

ReadReply(v, withBody, showVid) ==
  [st |-> 200, code |-> ""] @@
  (IF withBody THEN [body |-> v.body] ELSE [nobody |-> TRUE, clen |-> v.body]) @@
  (IF v.mp THEN <<>> ELSE [etag |-> v.body]) @@
  [meta |-> v.meta] @@
  (IF showVid /\ ~v.nul THEN [vid |-> v.vid] ELSE <<>>)

\* conditional read: If-None-Match carrying the ETag of body op.inm answers 304 NotModified (no body)
\* exactly when that is the current body's ETag
GetOrHead(st, cfg, op, withBody) ==
  LET e == Ensure(st, cfg, op.b) IN
  IF ~e.ok THEN Err(st, "NoSuchBucket")
  ELSE LET s == Stack(e.st, op.b, op.k) IN
       IF ~Live(s) THEN Err(e.st, "NoSuchKey")
       ELSE IF "inm" \in DOMAIN op /\ op.inm = Cur(s).body /\ ~Cur(s).mp
         THEN Ok(e.st, [st |-> 304, code |-> "*", nobody |-> TRUE])
       \* If-Modified-Since: a date after every write ("future") answers 304, one before every write ("past")
       \* changes nothing (every stored object carries the time of its write)
       ELSE IF "ims" \in DOMAIN op /\ op.ims = "future"
         THEN Ok(e.st, [st |-> 304, code |-> "*", nobody |-> TRUE])
       ELSE Ok(e.st, ReadReply(Cur(s), withBody, Enabled(e.st, op.b)))

\* plain DELETE of one key; returns the set of admissible [st, vid, dm]
DeleteOne(st, cfg, b, k, vid) ==
  LET s == Stack(st, b, k) IN
  CASE st.bk[b].ver = "Enabled" ->
         {[st |-> [SetStack(st, b, k, Append(s, MkDm(vid, FALSE))) EXCEPT !.vids = @ \cup {vid}],
           vid |-> vid, dm |-> TRUE]}
    [] st.bk[b].ver = "Suspended" ->
         \* don't-care region (rule 2): a null delete marker, or only the null
         \* version removed -- both keep every enabled-era version
         LET markers == {[st |-> SetStack(st, b, k, Append(base, MkDm("null", TRUE))),
                          vid |-> "", dm |-> TRUE] : base \in NullBases(cfg, s)}
             drops   == {[st |-> SetStack(st, b, k, base), vid |-> "", dm |-> FALSE]
                           : base \in NullBases(cfg, s)}
         IN IF s = <<>> THEN drops
            ELSE CASE cfg.suspDelete = "marker" -> markers
                   [] cfg.suspDelete = "drop"   -> drops
                   [] cfg.suspDelete = "code"   -> IF Cur(s).nul THEN drops ELSE markers
                   [] OTHER                     -> markers \cup drops
    [] OTHER -> {[st |-> SetStack(st, b, k, <<>>), vid |-> "", dm |-> FALSE]}

\* In an Enabled bucket, gofakes3 (like S3) adds a marker even when the key has
\* no versions at all?  S3 does; gofakes3 answers 204 and records nothing.  Both
\* are admissible: a marker on a key without versions is unobservable through
\* reads, and C05 speaks of keys that have versions.  Kept as a named region.
DeleteObject(st, cfg, op) ==
  LET e == Ensure(st, cfg, op.b) IN
  IF ~e.ok THEN Err(st, "NoSuchBucket")
  ELSE LET s == Stack(e.st, op.b, op.k) IN
       IF s = <<>> /\ Enabled(e.st, op.b)
         THEN \* DeleteMissingEnabled
              IF op.vid = "" THEN Ok(e.st, [st |-> 204, code |-> ""])
              ELSE IF ~VidFresh(e.st, op.b, op.vid) THEN {}
              ELSE {R(d.st, [st |-> 204, code |-> "", vid |-> d.vid, dm |-> d.dm])
                      : d \in DeleteOne(e.st, cfg, op.b, op.k, op.vid)}
       ELSE IF ~VidFresh(e.st, op.b, op.vid) THEN {}
       ELSE {R(d.st, [st |-> 204, code |-> ""] @@
                     (IF Enabled(e.st, op.b) THEN [vid |-> d.vid, dm |-> d.dm] ELSE <<>>))
               : d \in DeleteOne(e.st, cfg, op.b, op.k, op.vid)}

\* multi-object delete: op.objs is a sequence of [k, vid] (vid = "" for a plain
\* delete).  Markers created by the plain deletes get ids no reply reveals.
RECURSIVE MultiDel(_, _, _, _, _)
DeleteVersionOf(st, b, k, vid) == SetStack(st, b, k, RemoveVid(Stack(st, b, k), vid))
MultiDel(st, cfg, b, objs, i) ==
  IF i > Len(objs) THEN {st}
  ELSE LET o == objs[i] IN
       IF o.vid # ""
         THEN MultiDel(DeleteVersionOf(st, b, o.k, o.vid), cfg, b, objs, i + 1)
         ELSE IF Enabled(st, b) /\ Stack(st, b, o.k) = <<>>
                THEN MultiDel(st, cfg, b, objs, i + 1)      \* DeleteMissingEnabled: see below
                ELSE UNION {MultiDel(d.st, cfg, b, objs, i + 1)
                              : d \in DeleteOne(st, cfg, b, o.k, HiddenVid(st))}

DeleteMulti(st, cfg, op) ==
  LET e == Ensure(st, cfg, op.b) IN
  IF ~e.ok THEN Err(st, "NoSuchBucket")
  ELSE IF ~cfg.versioned /\ \E i \in 1..Len(op.objs) : op.objs[i].vid # ""
         THEN \* version ids are ignored by backends without versioning: don't-care
              {}
  ELSE {R(s2, [st |-> 200, code |-> "",
               \* <Quiet>true</Quiet>: the same deletions, reported by their failures only
               deleted |-> IF "quiet" \in DOMAIN op /\ op.quiet THEN <<>>
                           ELSE [i \in 1..Len(op.objs) |-> op.objs[i].k]])
          : s2 \in MultiDel(e.st, cfg, op.b, op.objs, 1)}

\* copy = read source, then the ordinary write (two critical sections in the
\* code; CopyRead / CopyWrite are exposed separately for the concurrent model)
CopyRead(st, cfg, op) ==
  IF ~HasB(st, op.sb) THEN [ok |-> FALSE, code |-> "NoSuchBucket"]
  ELSE LET s == Stack(st, op.sb, op.sk) IN
       IF ~Live(s) THEN [ok |-> FALSE, code |-> "NoSuchKey"]
       ELSE [ok |-> TRUE, v |-> Cur(s)]
CopyObject(st, cfg, op) ==
  LET e == Ensure(st, cfg, op.b) IN
  IF ~e.ok THEN Err(st, "NoSuchBucket")
  ELSE IF "srcInternal" \in DOMAIN op       \* the source names a backend's own storage: nothing there (C10)
    THEN ErrIn(e.st, {"NoSuchBucket", "NoSuchKey"})
  ELSE LET rd == CopyRead(e.st, cfg, op) IN
       IF ~rd.ok THEN Err(e.st, rd.code)
       ELSE LET meta == op.meta @@ rd.v.meta IN     \* the new version's id is not revealed
            {R(w.st, [st |-> 200, code |-> "", xetag |-> rd.v.body])
               : w \in StoreSet(e.st, cfg, op.b, op.k, rd.v.body, meta, FALSE, HiddenVid(e.st))}

\* ---- versioning ----
GetVersioning(st, cfg, op) ==
  LET e == Ensure(st, cfg, op.b) IN
  IF ~e.ok THEN Err(st, "NoSuchBucket")
  ELSE Ok(e.st, [st |-> 200, code |-> "",
                 status |-> IF cfg.versioned /\ e.st.bk[op.b].ver # "None"
                            THEN e.st.bk[op.b].ver ELSE ""])

PutVersioning(st, cfg, op) ==   \* op.status \in {"Enabled", "Suspended"}
  LET e == Ensure(st, cfg, op.b) IN
  IF ~e.ok THEN Err(st, "NoSuchBucket")
  ELSE IF ~cfg.versioned
    THEN IF op.status = "Enabled" THEN Err(e.st, "NotImplemented")
         ELSE Ok(e.st, [st |-> 200, code |-> ""])
  ELSE LET old == e.st.bk[op.b].ver
           new == IF op.status = "Enabled" THEN {"Enabled"}
                  ELSE IF old = "None"                               \* rule 2: either
                         THEN CASE cfg.suspNone = "None" -> {"None"}
                                [] cfg.suspNone = "Suspended" -> {"Suspended"}
                                [] OTHER -> {"None", "Suspended"}
                  ELSE {"Suspended"} IN
       {R([e.st EXCEPT !.bk[op.b].ver = n], [st |-> 200, code |-> ""]) : n \in new}

GetOrHeadVersion(st, cfg, op, withBody) ==
  IF ~cfg.versioned THEN ErrIn(st, {"NotImplemented", "NoSuchBucket"} \
                                   (IF HasB(st, op.b) THEN {"NoSuchBucket"} ELSE {}))
  ELSE
  LET e == Ensure(st, cfg, op.b) IN
  IF ~e.ok THEN Err(st, "NoSuchBucket")
  ELSE LET s == Stack(e.st, op.b, op.k) IN
       IF s = <<>> THEN ErrIn(e.st, {"NoSuchKey", "NoSuchVersion"})
       ELSE IF ~HasVid(s, op.vid) THEN Err(e.st, "NoSuchVersion")
       ELSE LET v == VerOf(s, op.vid) IN
            IF v.kind = "dm"
              THEN \* reading a delete marker by id: some 4xx (S3: 405)
                   {R(e.st, [alts |-> {[st |-> c, code |-> "*"] : c \in {404, 405}}])}
              ELSE Ok(e.st, ReadReply(v, withBody, TRUE))

DeleteObjectVersion(st, cfg, op) ==
  IF ~cfg.versioned THEN ErrIn(st, {"NotImplemented", "NoSuchBucket"} \
                                   (IF HasB(st, op.b) THEN {"NoSuchBucket"} ELSE {}))
  ELSE
  LET e == Ensure(st, cfg, op.b) IN
  IF ~e.ok THEN Err(st, "NoSuchBucket")
  ELSE LET s == Stack(e.st, op.b, op.k) IN
       IF ~HasVid(s, op.vid) THEN Ok(e.st, [st |-> 204, code |-> ""])
       ELSE Ok(SetStack(e.st, op.b, op.k, RemoveVid(s, op.vid)),
               [st |-> 204, code |-> "", vid |-> op.vid,
                dm |-> VerOf(s, op.vid).kind = "dm"])

\* ---- listings ----
EntryOf(st, b, k) == [k |-> k, body |-> Cur(Stack(st, b, k)).body,
                      mp |-> Cur(Stack(st, b, k)).mp]

\* first page of a listing (no marker), or an unpaginated listing (max = 0)
ListObjects(st, cfg, op) ==   \* op: b, v2, prefix, delim, max, marker, hasMarker
  LET e == Ensure(st, cfg, op.b) IN
  IF ~e.ok THEN Err(st, "NoSuchBucket")
  ELSE IF ~cfg.paginate /\ cfg.pageErr THEN Err(e.st, "NotImplemented")
  ELSE
  LET live   == LiveKeys(e.st, op.b)
      merged == ListMerged(live, op.prefix, op.delim)
      after  == IF op.hasMarker /\ cfg.paginate
                  THEN SelectSeq(merged, LAMBDA x :
                         IF x.kind = "key" THEN LexLess(op.marker, x.name)
                         ELSE \A m \in Members(live, op.prefix, op.delim, x.name) :
                                 LexLess(op.marker, m))
                  ELSE merged
      \* common prefixes the marker falls inside: may or may not be reported
      strad  == IF op.hasMarker /\ cfg.paginate
                  THEN {x.name : x \in {y \in ToSet(merged) : y.kind = "prefix"
                           /\ (\E m \in Members(live, op.prefix, op.delim, y.name) : LexLess(op.marker, m))
                           /\ (\E m2 \in Members(live, op.prefix, op.delim, y.name) : ~LexLess(op.marker, m2))}}
                  ELSE {}
      lim    == IF cfg.paginate /\ op.max > 0 THEN op.max ELSE Len(after)
      page   == SubSeq(after, 1, IF lim < Len(after) THEN lim ELSE Len(after))
      keys   == SelectSeq(page, LAMBDA x : x.kind = "key")
      pres   == SelectSeq(page, LAMBDA x : x.kind = "prefix")
  IN Ok(e.st, [st |-> 200, code |-> "",
               keys |-> [i \in 1..Len(keys) |-> EntryOf(e.st, op.b, keys[i].name)],
               prefixes |-> [i \in 1..Len(pres) |-> pres[i].name],
               optPrefixes |-> SetToSortSeq(strad, LexLess),
               trunc |-> Len(after) > Len(page),
               \* the document echoes the request's prefix and delimiter; V2 counts its entries (KeyCount)
               echo |-> [prefix |-> op.prefix, delim |-> op.delim]])

\* the complete version listing (single page); order inside a key is followed
ListVersions(st, cfg, op) ==   \* op: b, prefix, delim
  IF ~cfg.versioned THEN ErrIn(st, {"NotImplemented", "NoSuchBucket"} \
                                   (IF HasB(st, op.b) THEN {"NoSuchBucket"} ELSE {}))
  ELSE
  LET e == Ensure(st, cfg, op.b) IN
  IF ~e.ok THEN Err(st, "NoSuchBucket")
  ELSE
  LET all   == AllKeys(e.st, op.b)
      keys  == ListKeys(all, op.prefix, op.delim)
      pres  == ListPrefixes(all, op.prefix, op.delim)
      never == e.st.bk[op.b].ver = "None"
      Ent(k, i) == LET s == Stack(e.st, op.b, k) IN
                   [k |-> k, kind |-> s[i].kind, body |-> s[i].body, mp |-> s[i].mp,
                    latest |-> i = Len(s),
                    vid |-> IF ~s[i].nul THEN s[i].vid ELSE IF never THEN "null" ELSE "*"]
      PerKey(k) == [i \in 1..Len(Stack(e.st, op.b, k)) |-> Ent(k, i)]
  IN Ok(e.st, [st |-> 200, code |-> "",
               versions |-> Flatten([j \in 1..Len(keys) |-> PerKey(keys[j])]),
               prefixes |-> pres])

\* ---- multipart ----
HasU(st, op) == op.uid \in DOMAIN st.up /\ st.up[op.uid].b = op.b /\ st.up[op.uid].k = op.k

Initiate(st, cfg, op) ==
  LET e == Ensure(st, cfg, op.b) IN
  IF ~e.ok THEN Err(st, "NoSuchBucket")
  ELSE IF op.uid \in e.st.uids \/ op.uid = "" THEN {}
  ELSE Ok([e.st EXCEPT !.up = Upd(@, op.uid, [b |-> op.b, k |-> op.k, meta |-> op.meta,
                                               parts |-> <<>>,
                                               ord |-> Cardinality(e.st.uids) + 1]),
                       !.uids = @ \cup {op.uid},
                       !.mpb = @ \cup {op.b}],
          [st |-> 200, code |-> "", uid |-> op.uid])

UploadPart(st, cfg, op) ==     \* op: b, k, uid, n, body (non-empty)
  IF ~HasU(st, op) THEN Err(st, "NoSuchUpload")
  ELSE Ok([st EXCEPT !.up[op.uid].parts = Upd(@, op.n, op.body)],
          [st |-> 200, code |-> "", etag |-> op.body])

\* op.list : Seq([n, body]) -- body is the upload whose ETag the client quotes
\* (<<"?">> for an ETag that matches nothing)
CompleteProblems(u, list) ==
  (IF \E i \in 1..(Len(list) - 1) : list[i].n > list[i + 1].n
     THEN {"InvalidPartOrder"} ELSE {}) \cup
  (IF \E i \in 1..Len(list) : list[i].n \notin DOMAIN u.parts \/ u.parts[list[i].n] # list[i].body
     THEN {"InvalidPart"} ELSE {})

Complete(st, cfg, op) ==
  IF ~HasU(st, op) THEN Err(st, "NoSuchUpload")
  ELSE LET u == st.up[op.uid]
           probs == CompleteProblems(u, op.list) IN
       IF probs # {} THEN ErrIn(st, probs)
       ELSE IF op.list = <<>> \/ \E i \in 1..(Len(op.list) - 1) : op.list[i].n = op.list[i + 1].n
         THEN {}          \* empty or repeated part list: outside C06 (rule 2)
       ELSE IF ~HasB(st, op.b) THEN Err(st, "NoSuchBucket")
       ELSE IF ~VidFresh(st, op.b, op.vid) THEN {}
       ELSE LET bodies == [i \in 1..Len(op.list) |-> u.parts[op.list[i].n]] IN
            {R([w.st EXCEPT !.up = Del(@, op.uid)],
               [st |-> 200, code |-> "", cetag |-> bodies, vid |-> w.vid])
               : w \in StoreSet(st, cfg, op.b, op.k, Flatten(bodies), u.meta, TRUE, op.vid)}

Abort(st, cfg, op) ==
  IF ~HasU(st, op) THEN Err(st, "NoSuchUpload")
  ELSE Ok([st EXCEPT !.up = Del(@, op.uid)], [st |-> 204, code |-> ""])

ListParts(st, cfg, op) ==      \* complete listing (max = 0) or first page
  LET e == Ensure(st, cfg, op.b) IN
  IF ~e.ok THEN Err(st, "NoSuchBucket")
  ELSE IF ~HasU(e.st, op) THEN Err(e.st, "NoSuchUpload")
  ELSE LET u == e.st.up[op.uid]
           ns == SetToSortSeq({n \in DOMAIN u.parts : n > op.marker}, <)
           lim == IF op.max > 0 /\ op.max < Len(ns) THEN op.max ELSE Len(ns) IN
       Ok(e.st, [st |-> 200, code |-> "",
                 parts |-> [i \in 1..lim |-> [n |-> ns[i], body |-> u.parts[ns[i]]]],
                 trunc |-> lim < Len(ns)])

UploadsOf(st, b) == {u \in DOMAIN st.up : st.up[u].b = b}
ListUploads(st, cfg, op) ==    \* complete listing (max = 0) or first page; op: b, prefix, delim, max
  LET e == Ensure(st, cfg, op.b) IN
  IF ~e.ok THEN Err(st, "NoSuchBucket")
  ELSE IF op.b \notin e.st.mpb THEN {}    \* before any upload was initiated: outside C14
  ELSE LET us   == UploadsOf(e.st, op.b)
           keys == {e.st.up[u].k : u \in us}
           ents == ListMerged(keys, op.prefix, op.delim)
           UpsOf(k) == SetToSortSeq({u \in us : e.st.up[u].k = k},
                                    LAMBDA x, y : e.st.up[x].ord < e.st.up[y].ord)
           flat == Flatten([i \in 1..Len(ents) |->
                     IF ents[i].kind = "prefix" THEN <<[kind |-> "prefix", name |-> ents[i].name]>>
                     ELSE [j \in 1..Len(UpsOf(ents[i].name)) |->
                             [kind |-> "up", name |-> ents[i].name, uid |-> UpsOf(ents[i].name)[j]]]])
           lim  == IF op.max > 0 /\ op.max < Len(flat) THEN op.max ELSE Len(flat)
           page == SubSeq(flat, 1, lim)
           ups  == SelectSeq(page, LAMBDA x : x.kind = "up")
           pres == SelectSeq(page, LAMBDA x : x.kind = "prefix")
       IN Ok(e.st, [st |-> 200, code |-> "",
                    uploads |-> [i \in 1..Len(ups) |-> [k |-> ups[i].name, uid |-> ups[i].uid]],
                    prefixes |-> [i \in 1..Len(pres) |-> pres[i].name],
                    trunc |-> lim < Len(flat)])

\* ---- C08: one upload attempt, classified ----
\* well-formed Content-MD5 values that are not the digest of the body: of the body plus one byte ("wrong"), sixteen
\* zero bytes, sixteen 0xFF bytes, the right digest with its last bit flipped
WrongDigests == {"wrong", "zero", "ones", "flip"}
\* op: target \in {"put","chunked","post","part"}, b, k, body, meta,
\*     digest \in {"none","good","malformed","short","empty"} \cup WrongDigests   (Content-MD5)
\*     length \in {"exact","shorter","longer","missing","negative","nonnumeric"}
\*     keyClass \in {"ok","max","over"}   (max: exactly 1024 bytes, over: 1025)
\*     metaClass \in {"ok","over"}         (over: far above the configured limit)
\*     failAt : -1, or the number of bytes after which the body reader fails
\*     (part uploads: uid, n)
\* The set of reasons to refuse; the attempt is accepted iff it is empty.
\* "!" stands for any error status (a transport-level failure has no S3 code),
\* "*400" for a bare 400.
UploadProblems(cfg, op) ==
     (IF op.metaClass = "over" /\ op.target # "part" THEN {"MetadataTooLarge"} ELSE {})
\cup (IF op.length = "missing" THEN {"MissingContentLength"} ELSE {})
\cup (IF op.length \in {"negative", "nonnumeric"}
        THEN (IF op.target = "part" THEN {"MissingContentLength"} ELSE {"*400"}) ELSE {})
\cup (IF op.keyClass = "over" THEN {"KeyTooLongError"} ELSE {})
\cup (IF cfg.integrity /\ op.digest \in {"malformed", "short", "empty"} THEN {"InvalidDigest"} ELSE {})
\cup (IF cfg.integrity /\ op.digest \in WrongDigests THEN {"BadDigest"} ELSE {})
\* (C08 requires a refusal, not a particular code: a body that ends before its first byte is answered
\* with InternalError by the key-value backends)
\cup (IF op.length \in {"shorter", "longer"} THEN {"IncompleteBody", "!"} ELSE {})
\cup (IF op.failAt >= 0 THEN {"!"} ELSE {})

UploadKey(op) == op.k \o (CASE op.keyClass = "max" -> <<33>> [] op.keyClass = "over" -> <<33, 33>> [] OTHER -> <<>>)

Upload(st, cfg, op) ==
  LET probs == UploadProblems(cfg, op)
      k == UploadKey(op)
      refuse(s) == {R(s, [alts |-> {IF c = "!" THEN [st |-> 0, code |-> "!"]
                                    ELSE IF c = "*400" THEN [st |-> 400, code |-> "*"]
                                    ELSE [st |-> StatusOf(c), code |-> c] : c \in probs}])} IN
  IF op.target = "part"
    THEN IF probs # {} THEN refuse(st)       \* (the bucket is not consulted by part uploads)
         ELSE UploadPart(st, cfg, op)
    ELSE LET e == Ensure(st, cfg, op.b) IN
         IF ~e.ok THEN Err(st, "NoSuchBucket")
         ELSE IF probs # {} THEN refuse(e.st)
         ELSE PutObject(e.st, cfg, [op EXCEPT !.k = k])

\* ---- the transition function ----
Step(st, cfg, op) ==
  CASE op.op = "CreateBucket"  -> CreateBucket(st, cfg, op)
    [] op.op = "HeadBucket"    -> HeadBucket(st, cfg, op)
    [] op.op = "DeleteBucket"  -> DeleteBucket(st, cfg, op)
    [] op.op = "ListBuckets"   -> ListBuckets(st, cfg, op)
    [] op.op = "GetLocation"   -> GetLocation(st, cfg, op)
    [] op.op = "PutObject"     -> PutObject(st, cfg, op)
    [] op.op = "PostObject"    -> PutObject(st, cfg, op)
    [] op.op = "GetObject"     -> GetOrHead(st, cfg, op, TRUE)
    [] op.op = "HeadObject"    -> GetOrHead(st, cfg, op, FALSE)
    [] op.op = "DeleteObject"  -> DeleteObject(st, cfg, op)
    [] op.op = "DeleteMulti"   -> DeleteMulti(st, cfg, op)
    [] op.op = "CopyObject"    -> CopyObject(st, cfg, op)
    [] op.op = "GetVersioning" -> GetVersioning(st, cfg, op)
    [] op.op = "PutVersioning" -> PutVersioning(st, cfg, op)
    [] op.op = "GetObjectVersion"    -> GetOrHeadVersion(st, cfg, op, TRUE)
    [] op.op = "HeadObjectVersion"   -> GetOrHeadVersion(st, cfg, op, FALSE)
    [] op.op = "DeleteObjectVersion" -> DeleteObjectVersion(st, cfg, op)
    [] op.op = "ListObjects"   -> ListObjects(st, cfg, op)
    [] op.op = "ListVersions"  -> ListVersions(st, cfg, op)
    [] op.op = "Initiate"      -> Initiate(st, cfg, op)
    [] op.op = "UploadPart"    -> UploadPart(st, cfg, op)
    [] op.op = "Complete"      -> Complete(st, cfg, op)
    [] op.op = "Abort"         -> Abort(st, cfg, op)
    [] op.op = "ListParts"     -> ListParts(st, cfg, op)
    [] op.op = "ListUploads"   -> ListUploads(st, cfg, op)
    [] op.op = "Upload"        -> Upload(st, cfg, op)

\* ---- the observable projection of a state (what a client can find out) ----
\* Emitted with every tour so that the harness can audit the implementation's
\* whole state after the last step, and logged by trace recorders.
Snap(st) ==
  [buckets |->
     LET bs == SetToSeq(DOMAIN st.bk) IN
     [i \in 1..Len(bs) |->
        LET b == bs[i]
            ks == SortKeys(DOMAIN st.bk[b].objs) IN
        [b |-> b, ver |-> st.bk[b].ver,
         objs |-> [j \in 1..Len(ks) |-> [k |-> ks[j], vs |-> st.bk[b].objs[ks[j]]]]]],
   uploads |->
     LET us == SetToSeq(DOMAIN st.up) IN
     [i \in 1..Len(us) |->
        LET u == st.up[us[i]]
            ns == SetToSortSeq(DOMAIN u.parts, <) IN
        [uid |-> us[i], b |-> u.b, k |-> u.k, ord |-> u.ord, meta |-> u.meta,
         parts |-> [j \in 1..Len(ns) |-> [n |-> ns[j], body |-> u.parts[ns[j]]]]]],
   mpb |-> st.mpb]

Mutating == {"CreateBucket", "DeleteBucket", "PutObject", "PostObject", "DeleteObject",
             "DeleteMulti", "CopyObject", "PutVersioning", "DeleteObjectVersion",
             "Initiate", "UploadPart", "Complete", "Abort", "Upload"}

\* =========================== properties of the design ===========================
\* (state predicates over st, and step predicates over (st, op, result))

\* C05 NeverLost: a non-null version disappears only when named by a version delete
NamedVids(op) ==
  IF op.op = "DeleteObjectVersion" THEN {op.vid}
  ELSE IF op.op = "DeleteMulti" THEN {op.objs[i].vid : i \in 1..Len(op.objs)} \ {""}
  ELSE {}
AllVersions(st) ==
  UNION {UNION {{[b |-> b, k |-> k, v |-> st.bk[b].objs[k][i]] : i \in 1..Len(st.bk[b].objs[k])}
                  : k \in DOMAIN st.bk[b].objs} : b \in DOMAIN st.bk}
NeverLostStep(st, op, res) ==
  \A x \in AllVersions(st) :
     (~x.v.nul /\ x.v.vid \notin NamedVids(op) /\ ~(op.op = "DeleteBucket"))
        => x \in AllVersions(res.st)

\* C10 Frame: an operation changes only the (bucket,key)s it addresses
Addressed(op) ==
  IF op.op \in {"PutObject", "PostObject", "DeleteObject", "CopyObject", "DeleteObjectVersion", "Complete"}
    THEN {<<op.b, op.k>>}
  ELSE IF op.op = "DeleteMulti" THEN {<<op.b, op.objs[i].k>> : i \in 1..Len(op.objs)}
  ELSE {}
StackAt(st, b, k) == IF HasB(st, b) THEN Stack(st, b, k) ELSE <<>>
AllBK(st) == UNION {{<<b, k>> : k \in DOMAIN st.bk[b].objs} : b \in DOMAIN st.bk}
FrameStep(st, op, res) ==
  \A bk \in (AllBK(st) \cup AllBK(res.st)) \ Addressed(op) :
     op.op # "DeleteBucket" => StackAt(res.st, bk[1], bk[2]) = StackAt(st, bk[1], bk[2])

\* C08 / C06: a refused request changes nothing (auto-bucket creation aside)
Refused(r) == IF "alts" \in DOMAIN r THEN TRUE ELSE r.st >= 400
RejectedUnchangedStep(st, cfg, op, res) ==
  Refused(res.r) =>
     /\ res.st.up = st.up
     /\ \A b \in DOMAIN st.bk : b \in DOMAIN res.st.bk /\ res.st.bk[b] = st.bk[b]
     /\ \A b \in DOMAIN res.st.bk : b \notin DOMAIN st.bk => (cfg.auto /\ res.st.bk[b] = NewBucket)

\* C05 FreshVid
FreshVidStep(st, op, res) == res.st.vids # st.vids => Cardinality(res.st.vids \ st.vids) >= 1 /\ st.vids \subseteq res.st.vids

\* C02 ReadYourWrite
ReadYourWriteStep(st, op, res) ==
  (op.op \in {"PutObject", "PostObject"} /\ ~Refused(res.r))
     => /\ Live(Stack(res.st, op.b, op.k))
        /\ Cur(Stack(res.st, op.b, op.k)).body = op.body
=============================================================================
