------------------------------- MODULE TraceUp -------------------------------
(***************************************************************************)
(* Refinement check of the built-in multipart uploader against S3!Step on  *)
(* state traces recorded from inside it (build tag verif: verif_trace.go   *)
(* in the repository root).                                                *)
(*                                                                         *)
(* Every mutating uploader method emits one event while it still holds the *)
(* uploader's lock, after the change: the operation, its arguments (upload *)
(* id, part number, the part list of a completion) and the resulting state *)
(* of the uploads on that (bucket, key) -- in the order of the uploader's   *)
(* own per-key list, each with its parts (number, MD5 of the stored body,  *)
(* the stored ETag) -- plus the ids of all uploads of the bucket.  The      *)
(* specification rebuilds the operation (the id a new upload received and  *)
(* the body of an uploaded part are read off the logged state), applies    *)
(* S3!Step and requires that the model's uploads on that key, in           *)
(* initiation order, with their parts, are exactly the logged ones, that   *)
(* the bucket's upload ids are the model's, and that every stored ETag is  *)
(* the MD5 of the stored body.                                             *)
(*                                                                         *)
(* The uploader knows nothing about buckets (the front end checks them), so *)
(* a bucket is taken to exist from the first event that names it.          *)
(***************************************************************************)
EXTENDS S3, Json, IOUtils

Trace == ndJsonDeserialize(IOEnv.TRACE)

VARIABLES l, st
vars == <<l, st>>
Ev == Trace[l]

Cfg == DefaultCfg

WithBucket(s, b) == IF HasB(s, b) THEN s ELSE [s EXCEPT !.bk = Upd(@, b, NewBucket)]

\* ---- what the event shows ----
LoggedIds(e) == {e.ups[i].uid : i \in 1..Len(e.ups)}
LoggedUp(e, uid) == e.ups[CHOOSE i \in 1..Len(e.ups) : e.ups[i].uid = uid]
PartOf(u, n) == u.parts[CHOOSE i \in 1..Len(u.parts) : u.parts[i].n = n]
HasPart(u, n) == \E i \in 1..Len(u.parts) : u.parts[i].n = n

\* ---- the model's view of the same ----
UpsOn(s, b, k) == {u \in DOMAIN s.up : s.up[u].b = b /\ s.up[u].k = k}
InOrder(s, b, k) == SetToSortSeq(UpsOn(s, b, k), LAMBDA x, y : s.up[x].ord < s.up[y].ord)
IdsOf(s, b) == {u \in DOMAIN s.up : s.up[u].b = b}

PartsMatch(mparts, lparts) ==
  /\ DOMAIN mparts = {lparts[i].n : i \in 1..Len(lparts)}
  /\ \A i \in 1..Len(lparts) :
       /\ mparts[lparts[i].n] = <<lparts[i].md5>>
       /\ lparts[i].etag = lparts[i].md5             \* the ETag kept for a part is the MD5 of the body kept for it

StateMatches(s2, e) ==
  LET order == InOrder(s2, e.b, e.k) IN
  /\ Len(order) = Len(e.ups)
  /\ \A i \in 1..Len(order) : /\ order[i] = e.ups[i].uid
                              /\ PartsMatch(s2.up[order[i]].parts, e.ups[i].parts)
  /\ IdsOf(s2, e.b) = {e.all[i] : i \in 1..Len(e.all)}

ListOf(e) == [i \in 1..Len(e.list) |-> [n |-> e.list[i].n, body |-> <<e.list[i].etag>>]]

Successors(s0, e) ==
  LET s == WithBucket(s0, e.b) IN
  CASE e.op = "Initiate" ->
         LET new == LoggedIds(e) \ DOMAIN s.up IN
         IF Cardinality(new) # 1 THEN {}
         ELSE LET uid == CHOOSE x \in new : TRUE IN
              {r.st : r \in Step(s, Cfg, [op |-> "Initiate", b |-> e.b, k |-> e.k, meta |-> <<>>, uid |-> uid])}
    [] e.op = "UploadPart" ->
         LET body == IF e.uid \in LoggedIds(e) /\ HasPart(LoggedUp(e, e.uid), e.part)
                       THEN <<PartOf(LoggedUp(e, e.uid), e.part).md5>> ELSE <<"?">> IN
         {r.st : r \in Step(s, Cfg, [op |-> "UploadPart", b |-> e.b, k |-> e.k, uid |-> e.uid, n |-> e.part, body |-> body])}
    [] e.op = "Abort" ->
         {r.st : r \in Step(s, Cfg, [op |-> "Abort", b |-> e.b, k |-> e.k, uid |-> e.uid])}
    [] e.op = "Complete" ->
         LET out == Step(s, Cfg, [op |-> "Complete", b |-> e.b, k |-> e.k, uid |-> e.uid, list |-> ListOf(e), vid |-> ""]) IN
         \* an empty or repeating part list is outside C06: the upload may be gone or still there
         IF out = {} THEN {s, [s EXCEPT !.up = Del(@, e.uid)]} ELSE {r.st : r \in out}
    [] OTHER -> {}

Init == TLCSet(1, 0) /\ l = 1 /\ st = InitState

Reset == /\ l <= Len(Trace) /\ Ev.op = "reset"
         /\ st' = InitState /\ l' = l + 1

Apply == /\ l <= Len(Trace) /\ Ev.op # "reset"
         /\ \E s2 \in Successors(st, Ev) : StateMatches(s2, Ev) /\ st' = s2
         /\ l' = l + 1

Next == Reset \/ Apply
Spec == Init /\ [][Next]_vars

HighWater == TLCSet(1, IF l > TLCGet(1) THEN l ELSE TLCGet(1))      \* a CONSTRAINT; one worker
Accepted == IF TLCGet(1) > Len(Trace) THEN TRUE
            ELSE PrintT(<<"REJECTED-AT", TLCGet(1), Len(Trace)>>) /\ FALSE
=============================================================================
