---------------------------- MODULE S3BucketName ----------------------------
(***************************************************************************)
(* C17: the documented S3 bucket naming rules, over byte sequences.        *)
(* A name is valid iff it has 3..63 bytes, consists of labels separated by *)
(* single dots, every label has at least three bytes of [a-z0-9-] and      *)
(* begins and ends with a letter or digit, and it is not formatted as an   *)
(* IPv4 address.                                                           *)
(***************************************************************************)
EXTENDS Integers, Sequences, FiniteSets

IsLower(c) == c \in 97..122
IsDigit(c) == c \in 48..57
IsAlnum(c) == IsLower(c) \/ IsDigit(c)
Dot == 46
Hyphen == 45

\* the maximal dot-free runs of s, empty runs included ("a..b" has an empty label)
RECURSIVE Labels(_)
Labels(s) ==
  LET dots == {i \in 1..Len(s) : s[i] = Dot} IN
  IF dots = {} THEN <<s>>
  ELSE LET d == CHOOSE i \in dots : \A j \in dots : i <= j
       IN <<SubSeq(s, 1, d - 1)>> \o Labels(SubSeq(s, d + 1, Len(s)))

ValidLabel(l) == /\ Len(l) >= 3
                 /\ \A i \in 1..Len(l) : IsAlnum(l[i]) \/ l[i] = Hyphen
                 /\ IsAlnum(l[1]) /\ IsAlnum(l[Len(l)])

\* decimal value of a digit string (only called on all-digit labels of length <= 3)
Val(l) == IF Len(l) = 1 THEN l[1] - 48
          ELSE IF Len(l) = 2 THEN (l[1] - 48) * 10 + (l[2] - 48)
          ELSE (l[1] - 48) * 100 + (l[2] - 48) * 10 + (l[3] - 48)
AllDigits(l) == Len(l) >= 1 /\ \A i \in 1..Len(l) : IsDigit(l[i])
\* four decimal octets 0..255 without leading zeros: unambiguously an IPv4 address
IsIPv4(s) == LET ls == Labels(s) IN
             /\ Len(ls) = 4
             /\ \A i \in 1..4 : AllDigits(ls[i]) /\ Len(ls[i]) <= 3 /\ Val(ls[i]) <= 255
                                /\ (Len(ls[i]) > 1 => ls[i][1] # 48)
\* looks like dotted decimal but is not a canonical address (octet > 255 or
\* leading zeros): whether that counts as "formatted as an IP address" is a
\* don't-care (DESIGN section 7, C17)
IPAmbiguous(s) == LET ls == Labels(s) IN
                  /\ Len(ls) = 4 /\ \A i \in 1..4 : AllDigits(ls[i])
                  /\ ~IsIPv4(s)

ValidName(s) == /\ Len(s) \in 3..63
                /\ \A i \in 1..Len(Labels(s)) : ValidLabel(Labels(s)[i])
                /\ ~IsIPv4(s)

\* a second, regex-free formulation used to cross-check ValidName (NameRule):
\* character-level scan without splitting
ValidName2(s) ==
  /\ Len(s) >= 3 /\ Len(s) <= 63
  /\ \A i \in 1..Len(s) : IsAlnum(s[i]) \/ s[i] = Hyphen \/ s[i] = Dot
  /\ IsAlnum(s[1]) /\ IsAlnum(s[Len(s)])
  /\ \A i \in 1..Len(s) : s[i] = Dot => (i > 1 /\ i < Len(s) /\ IsAlnum(s[i - 1]) /\ IsAlnum(s[i + 1]))
  \* every dot-free run has length >= 3
  /\ \A i \in 1..Len(s) :
       (s[i] # Dot /\ (i = 1 \/ s[i - 1] = Dot)) =>
          (i + 2 <= Len(s) /\ s[i + 1] # Dot /\ s[i + 2] # Dot)
  /\ ~IsIPv4(s)
=============================================================================
