------------------------------ MODULE MC_Chunked ------------------------------
(***************************************************************************)
(* C12.  Two things:                                                       *)
(*  (1) a state-machine model of decoding under environment nondeterminism *)
(*      (transport fragment sizes, consumer buffer sizes): TLC checks       *)
(*      DecodeExact over all fragmentations of small streams;              *)
(*  (2) case emission: every (chunk sizes, final chunk?, cyclic fragment   *)
(*      pattern, cyclic consumer-buffer pattern, EOF style, malformation)  *)
(*      tuple in scope is printed with the expected outcome and executed   *)
(*      by the harness against the real decoder (lockstep) and, scaled so  *)
(*      that chunks straddle the consumers' buffers, end to end.           *)
(***************************************************************************)
EXTENDS S3Chunked, TLC, Json, SequencesExt

CONSTANTS MaxChunk, MaxChunks, MaxFrag, MaxBuf, Emit

\* ---------- (1) the decoder state machine ----------
VARIABLES wire,     \* remaining wire tokens
          inbuf,    \* tokens read from the transport, not yet decoded
          out,      \* payload bytes handed to the consumer so far
          want,     \* the payload (what `out` must become)
          cs        \* the case under execution: [chunks, final]
vars == <<wire, inbuf, out, want, cs>>

ChunkSeqs == UNION {[1..n -> 1..MaxChunk] : n \in 0..MaxChunks}

Init == /\ cs \in {[chunks |-> c, final |-> f] : c \in ChunkSeqs, f \in BOOLEAN}
        /\ wire = Stream(cs.chunks, cs.final)
        /\ inbuf = <<>> /\ out = <<>>
        /\ want = Payload(cs.chunks)

\* the transport delivers the next 1..MaxFrag wire bytes (any split)
Transport == \E n \in 1..MaxFrag :
               /\ n <= Len(wire)
               /\ inbuf' = inbuf \o SubSeq(wire, 1, n)
               /\ wire' = SubSeq(wire, n + 1, Len(wire))
               /\ UNCHANGED <<out, want, cs>>
\* the decoder hands up to b decoded bytes to a consumer buffer of size b,
\* skipping framing tokens it has fully received
Deliver == \E b \in 1..MaxBuf :
             LET data == SelectSeq(inbuf, LAMBDA t : t[1] = "D")
                 n == IF Len(data) < b THEN Len(data) ELSE b IN
             /\ n > 0
             /\ out' = out \o [i \in 1..n |-> data[i][2]]
             \* drop everything up to and including the n-th data token
             /\ LET idx == CHOOSE j \in 1..Len(inbuf) :
                             /\ inbuf[j][1] = "D"
                             /\ Cardinality({i \in 1..j : inbuf[i][1] = "D"}) = n
                IN inbuf' = SubSeq(inbuf, idx + 1, Len(inbuf))
             /\ UNCHANGED <<wire, want, cs>>
Next == Transport \/ Deliver
Spec == Init /\ [][Next]_vars

\* DecodeExact: delivered bytes are always a prefix of the payload, and when
\* the transport is exhausted and nothing is buffered, they are all of it
DecodeExact == /\ IsPrefix(out, want)
               /\ (wire = <<>> /\ SelectSeq(inbuf, LAMBDA t : t[1] = "D") = <<>>) => out = want

\* ---------- (2) case emission (an invariant evaluated on initial states) ----------
Patterns(m) == UNION {[1..n -> 1..m] : n \in 1..2}          \* cyclic patterns of length 1..2
EofStyles == {"separate", "withdata"}                         \* EOF after the last data, or together with it

Case(c, f, fr, bf, eof, mal) == [chunks |-> c, final |-> f, frags |-> fr, bufs |-> bf, eof |-> eof, mal |-> mal,
                                 expect |-> IF mal = "" THEN "payload" ELSE "reject"]
CasesOf(c, f) ==
     {Case(c, f, fr, bf, eof, "") : fr \in Patterns(MaxFrag), bf \in Patterns(MaxBuf), eof \in EofStyles}
\cup (IF c = <<>> THEN {} ELSE
      {Case(c, f, fr, <<MaxBuf>>, "separate", m) : fr \in {<<1>>, <<MaxFrag>>}, m \in MalformedKinds})

EmitInv == Emit => PrintT(ToJson([cases |-> SetToSeq(CasesOf(cs.chunks, cs.final))]))
Stutter == UNCHANGED vars      \* emission runs explore only the initial states
=============================================================================
