------------------------------ MODULE MC_Range ------------------------------
(***************************************************************************)
(* C11, exhaustive in scope: for every object size 0..N one tour that      *)
(* stores an object of exactly that size and issues every Range header of  *)
(* the enumerated syntax classes, each with the reply S3Range predicts.    *)
(***************************************************************************)
EXTENDS S3, S3Range, Json

CONSTANTS N, CfgName,
          Versions,    \* "none"; "older": the ranges are read from an OLDER version by its id, the current version having another
                       \* size; "marker": the same with a delete marker on top (versioned bucket: CfgName = "mem")
          LargeSizes   \* {} : sizes 0..N with every bound 0..N+2;  otherwise: these object sizes (several MiB) with
                       \* bounds at and around multiples of 1 MiB and around the end of the object
VARIABLES size
vars == <<size>>

Cfg == CASE CfgName = "mem" -> [DefaultCfg EXCEPT !.paginate = FALSE]
         [] CfgName = "single" -> [DefaultCfg EXCEPT !.versioned = FALSE, !.paginate = FALSE, !.single = "bkt1"]
         [] OTHER -> [DefaultCfg EXCEPT !.versioned = FALSE, !.paginate = FALSE]
B == "bkt1"
K == <<107>>

\* bounds with their decimal rendering; "big" values are all >= 2^31
MiB == 1048576
SmallVals == IF LargeSizes = {} THEN 0..(N + 2)
             ELSE {v \in {0, 1, 7, MiB - 1, MiB, MiB + 1, MiB + 6, 2 * MiB - 1, 2 * MiB,
                          size - MiB - 1, size - MiB, size - MiB + 7, size - 1, size, size + 1} : v >= 0}
Small == {[b |-> Fin(i), s |-> ToString(i)] : i \in SmallVals}
Big   == {[b |-> Inf, s |-> x] : x \in {"2147483647", "2147483648", "4294967296", "9223372036854775806", "9223372036854775807"}}
Bounds == Small \cup Big
\* strings that are not a bound at all
Junk == {"-1", "x", "9223372036854775808", "18446744073709551616", "1.5", "0x1"}

\* last positions in [2^63, 2^64): not representable as a signed 64-bit offset
Over63 == {"9223372036854775809", "9223372036854775811", "9223372036854775818", "18446744073709551615"}
Hdr(s) == "bytes=" \o s
Cases ==
     {[h |-> Hdr(f.s \o "-" \o l.s), r |-> [kind |-> "closed", first |-> f.b, last |-> l.b], ws |-> FALSE] : f \in Bounds, l \in Bounds}
\cup {[h |-> Hdr(f.s \o "-"), r |-> [kind |-> "open", first |-> f.b], ws |-> FALSE] : f \in Bounds}
\cup {[h |-> Hdr("-" \o n.s), r |-> [kind |-> "suffix", n |-> n.b], ws |-> FALSE] : n \in {x \in Bounds : x.b.inf \/ x.b.v # 0}}
\cup {[h |-> Hdr(j \o "-" \o l.s), r |-> [kind |-> "malformed"], ws |-> FALSE] : j \in Junk \ {"-1"}, l \in {x \in Small : x.b.v <= 1}}
\cup {[h |-> Hdr(f.s \o "-" \o j), r |-> [kind |-> "malformed"], ws |-> FALSE] : j \in Junk \cup Over63, f \in Small}
\cup {[h |-> Hdr("-" \o j), r |-> [kind |-> "malformed"], ws |-> FALSE] : j \in Junk}
\cup {[h |-> x, r |-> [kind |-> "malformed"], ws |-> FALSE]
        : x \in {"bytes=", "bytes", "bytes=-", "bytes=0", "bytes 0-1", "boats=0-1", "octets=0-", "=0-1", "0-1", "bytes=0-1-2", "bytes=a-b", "bytes=--1", "BYTES=0-1"}}
\cup {[h |-> x, r |-> [kind |-> "multi"], ws |-> FALSE] : x \in {"bytes=0-0,1-1", "bytes=0-1,", "bytes=,0-1", "bytes=0-,-1"}}
\* whitespace variants of a satisfiable/unsatisfiable closed range: the correct
\* 206 or a 416, nothing else (DESIGN 5.2)
\cup {[h |-> x.h, r |-> [kind |-> "closed", first |-> Fin(x.f), last |-> Fin(x.l)], ws |-> TRUE]
        : x \in {[h |-> "bytes= 0-1", f |-> 0, l |-> 1], [h |-> "bytes=0 -1", f |-> 0, l |-> 1],
                 [h |-> "bytes=0- 1", f |-> 0, l |-> 1], [h |-> "bytes=0-1 ", f |-> 0, l |-> 1],
                 [h |-> " bytes=0-1", f |-> 0, l |-> 1], [h |-> "bytes=1 - 2", f |-> 1, l |-> 2]}}

BodyOf(n) == IF n = 0 THEN <<>> ELSE <<"sz:" \o ToString(n)>>

Expected(n, c) ==
  LET x == ByteRange(n, c.r)
      ok == [st |-> 0, code |-> "",   \* any 2xx: C11 does not pin 206 (gofakes3 answers 200)
                   slice |-> [first |-> x.first, last |-> x.last, of |-> BodyOf(n)]] IN
  IF c.r.kind = "multi"
    THEN [alts |-> {[st |-> 416, code |-> "InvalidRange"], [st |-> 501, code |-> "NotImplemented"]}]
  ELSE IF c.ws
    THEN IF x.ok THEN ok @@ [or416 |-> TRUE] ELSE [st |-> 416, code |-> "InvalidRange"]
  ELSE IF x.ok THEN ok ELSE [st |-> 416, code |-> "InvalidRange"]

\* the size of the version written on top of the one that is read: shorter for large n, longer for small n
OtherSize(n) == IF n > (N \div 2) THEN n - ((N \div 2) + 1) ELSE n + (N \div 2) + 1
VersionTour(n) ==
  LET cs == SetToSeq(Cases)
      m  == OtherSize(n)
      ok == [st |-> 200, code |-> ""] IN
  [h |-> <<[op |-> [op |-> "CreateBucket", b |-> B], r |-> ok],
           [op |-> [op |-> "PutVersioning", b |-> B, status |-> "Enabled"], r |-> ok],
           [op |-> [op |-> "PutObject", b |-> B, k |-> K, body |-> BodyOf(n), meta |-> <<>>, vid |-> "v1"],
            r |-> ok @@ [etag |-> BodyOf(n), vid |-> "v1"]],
           [op |-> [op |-> "PutObject", b |-> B, k |-> K, body |-> BodyOf(m), meta |-> <<>>, vid |-> "v2"],
            r |-> ok @@ [etag |-> BodyOf(m), vid |-> "v2"]]>>
         \o (IF Versions = "marker"
               THEN <<[op |-> [op |-> "DeleteObject", b |-> B, k |-> K, vid |-> "v3"],
                       r |-> [st |-> 204, code |-> "", vid |-> "v3", dm |-> TRUE]]>>
               ELSE <<>>),
   a |-> [i \in 1..Len(cs) |-> [op |-> [op |-> "GetObjectVersion", b |-> B, k |-> K, vid |-> "v1", range |-> cs[i].h],
                                   r |-> Expected(n, cs[i])]]
         \o <<[op |-> [op |-> "GetObjectVersion", b |-> B, k |-> K, vid |-> "v1"],
               r |-> ok @@ [body |-> BodyOf(n), etag |-> BodyOf(n), vid |-> "v1"]],
              [op |-> [op |-> "GetObjectVersion", b |-> B, k |-> K, vid |-> "v2"],
               r |-> ok @@ [body |-> BodyOf(m), etag |-> BodyOf(m), vid |-> "v2"]]>>]

Tour(n) ==
  IF Versions # "none" THEN VersionTour(n) ELSE
  LET cs == SetToSeq(Cases)
      put == [op |-> "PutObject", b |-> B, k |-> K, body |-> BodyOf(n), meta |-> <<>>, vid |-> ""] IN
  \* h: the history that stores the object; a: the reads (a replay with --reopen restarts the backend between the two)
  [h |-> (IF Cfg.single = "" THEN <<[op |-> [op |-> "CreateBucket", b |-> B], r |-> [st |-> 200, code |-> ""]]>> ELSE <<>>)
         \o <<[op |-> put, r |-> [st |-> 200, code |-> "", etag |-> BodyOf(n)]]>>,
   a |-> [i \in 1..Len(cs) |-> [op |-> [op |-> "GetObject", b |-> B, k |-> K, range |-> cs[i].h],
                                   r |-> Expected(n, cs[i])]]
         \* the object is still intact and fully readable afterwards
         \o <<[op |-> [op |-> "GetObject", b |-> B, k |-> K], r |-> [st |-> 200, code |-> "", body |-> BodyOf(n), etag |-> BodyOf(n)]]>>]

Init == size \in (IF LargeSizes = {} THEN 0..N ELSE LargeSizes)
Next == UNCHANGED size
Spec == Init /\ [][Next]_vars
EmitInv == PrintT(ToJson(Tour(size)))
\* the design property: every satisfiable range is inside the object and as requested
Sound == \A c \in Cases : RangeSound(size, c.r)
=============================================================================
