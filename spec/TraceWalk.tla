------------------------------ MODULE TraceWalk ------------------------------
(***************************************************************************)
(* Trace validation of paginated listings (C04 objects, C13 versions, C14  *)
(* uploads and parts): a recorded walk -- the pages a client received      *)
(* while following the continuation the SERVER handed back -- is accepted  *)
(* iff it is a complete, duplicate-free, ordered, size-bounded traversal   *)
(* of the listing that S3Types defines for the recorded store content.     *)
(*                                                                         *)
(* Events (NDJSON, file named by the environment variable TRACE):          *)
(*   start: kind, exact, pag, max, prefix, delim,                          *)
(*          live = the entries the store holds: [k, id, a, ord]            *)
(*          (k key bytes; id version/upload id; a attributes compared      *)
(*           verbatim: size/etag/latest...; ord rank inside a key)         *)
(*   page : ents = [k, id, a]*, prefixes, trunc                            *)
(*   end                                                                   *)
(* Many walks are concatenated in one file; `start` resets the walk.       *)
(***************************************************************************)
EXTENDS S3Types, Json, IOUtils

Trace == ndJsonDeserialize(IOEnv.TRACE)

VARIABLES l,       \* next event
          full,    \* the listing in order (exact) -- sequence of [k, id, a]
          pres,    \* the set of common prefixes of the listing
          dSeq,    \* entries delivered so far
          dPres,   \* prefixes delivered so far
          pages, done, cur   \* cur = the start event of the current walk
vars == <<l, full, pres, dSeq, dPres, pages, done, cur>>

Ev == Trace[l]
Proj(e) == [k |-> e.k, id |-> e.id, a |-> e.a]

Listed(ev) == {e \in ToSet(ev.live) : StartsWith(e.k, ev.prefix)
                                       /\ Group(e.k, ev.prefix, ev.delim).kind = "key"}
PrefixesOf(ev) == {Group(e.k, ev.prefix, ev.delim).name :
                     e \in {x \in ToSet(ev.live) : StartsWith(x.k, ev.prefix)
                                                   /\ Group(x.k, ev.prefix, ev.delim).kind = "prefix"}}
FullOf(ev) ==
  LET s == SortSeq(SetToSeq(Listed(ev)),
                   LAMBDA x, y : LexLess(x.k, y.k) \/ (x.k = y.k /\ x.ord < y.ord))
  IN [i \in 1..Len(s) |-> Proj(s[i])]

Init == /\ l = 1 /\ full = <<>> /\ pres = {} /\ dSeq = <<>> /\ dPres = {}
        /\ pages = 0 /\ done = TRUE /\ cur = [kind |-> "none"]

Start ==
  /\ l <= Len(Trace) /\ Ev.t = "start"
  /\ done                                 \* the previous walk was completed
  /\ cur' = Ev
  /\ full' = FullOf(Ev) /\ pres' = PrefixesOf(Ev)
  /\ dSeq' = <<>> /\ dPres' = {} /\ pages' = 0 /\ done' = FALSE
  /\ l' = l + 1

KeysNonDecreasing(s) == \A i \in 1..(Len(s) - 1) : LexLeq(s[i].k, s[i + 1].k)

Page ==
  /\ l <= Len(Trace) /\ Ev.t = "page" /\ ~done
  /\ LET ents == [i \in 1..Len(Ev.ents) |-> Proj(Ev.ents[i])]
         ps   == ToSet(Ev.prefixes)
         d2   == dSeq \o ents
     IN /\ cur.pag => Len(ents) + Len(Ev.prefixes) <= cur.max          \* never more than the page size
        /\ IF cur.exact
             THEN IsPrefix(d2, full)                                   \* ascending, none skipped or repeated
             ELSE /\ ToSet(d2) \subseteq ToSet(full)                    \* only real entries
                  /\ Cardinality(ToSet(d2)) = Len(d2)                   \* each once
                  /\ KeysNonDecreasing(d2)                              \* grouped by key, keys ascending
        /\ Cardinality(ps) = Len(Ev.prefixes)                           \* no prefix twice in a page
        /\ \A q \in ps : q \in pres /\ q \notin dPres                   \* each common prefix once
        /\ Ascending(Ev.prefixes)
        /\ ~Ev.trunc => /\ Len(d2) = Len(full)                          \* IsTruncated=false only when nothing remains
                        /\ ToSet(d2) = ToSet(full)
                        /\ dPres \cup ps = pres
        /\ ~cur.pag => ~Ev.trunc                                        \* non-paginating: complete at once
        /\ dSeq' = d2 /\ dPres' = dPres \cup ps
        /\ done' = ~Ev.trunc
  /\ pages' = pages + 1
  /\ pages' <= Len(full) + Cardinality(pres) + 2                       \* termination
  /\ l' = l + 1
  /\ UNCHANGED <<full, pres, cur>>

End ==
  /\ l <= Len(Trace) /\ Ev.t = "end"
  /\ done
  /\ l' = l + 1
  /\ UNCHANGED <<full, pres, dSeq, dPres, pages, done, cur>>

Next == Start \/ Page \/ End
Spec == Init /\ [][Next]_vars

\* accepted iff every event was consumed (the spec is deterministic: one
\* state per consumed event plus the initial state)
Accepted ==
  LET d == TLCGet("stats").diameter IN
  IF d - 1 = Len(Trace) THEN TRUE
  ELSE PrintT(<<"REJECTED-AT", d, Len(Trace)>>) /\ FALSE
=============================================================================
