------------------------------ MODULE TraceMem ------------------------------
(***************************************************************************)
(* Refinement check of the in-memory backend against S3!Step, event by    *)
(* event, on state traces recorded from inside backend/s3mem (build tag   *)
(* verif: backend/s3mem/verif_trace.go).                                   *)
(*                                                                         *)
(* Every mutating Backend method emits one event while it still holds the  *)
(* backend's lock, after the change: the operation, its version-id         *)
(* arguments and the resulting abstract state of what it touched -- does   *)
(* the bucket exist, its versioning status, the key's complete version     *)
(* stack in creation order (version id, null flag, kind, MD5 of the body). *)
(* The events of one backend instance are totally ordered by a sequence    *)
(* number taken under that lock, so no interleaving has to be searched:    *)
(* the trace specification rebuilds the operation from the event (what was *)
(* not logged -- the new body, the id of a new version or marker -- is     *)
(* read off the logged stack), applies S3!Step and requires that SOME      *)
(* outcome Step admits has exactly the logged bucket status and stack.     *)
(* Don't-care regions of the specification (cfg "set") are resolved by the *)
(* trace.                                                                  *)
(*                                                                         *)
(* Sources of traces: the repository's own test-suite run with the hooks   *)
(* on (every test that touches s3mem becomes a conformance test whose      *)
(* oracle is the specification, whatever the test itself asserts), and the *)
(* harness's concurrent runs (the order of the linearization points is     *)
(* logged, so many-client histories are decided in linear time).           *)
(***************************************************************************)
EXTENDS S3, Json, IOUtils

Trace == ndJsonDeserialize(IOEnv.TRACE)

VARIABLES l, st
vars == <<l, st>>
Ev == Trace[l]

Cfg == DefaultCfg          \* versioned, paginating, no auto-bucket; every admissible outcome kept ("set")

BodyOf(h) == <<h>>         \* a body is identified by its MD5
Proj(s) == [i \in 1..Len(s) |->
              [vid |-> s[i].vid, nul |-> s[i].nul, kind |-> s[i].kind,
               body |-> IF s[i].body = <<>> THEN "" ELSE s[i].body[1]]]

KeyEvent(e) == e.op \in {"PutObject", "DeleteObjectVersion"}

StateMatches(s2, e) ==
  /\ HasB(s2, e.b) = e.exists
  /\ e.exists => s2.bk[e.b].ver = e.ver
  /\ (e.exists /\ KeyEvent(e)) => Proj(Stack(s2, e.b, e.k)) = e.stack

Top(e) == e.stack[Len(e.stack)]

\* ids of delete markers in the logged stack that the model has not issued yet: candidates for the id of a
\* marker a plain delete created
NewMarkerIds(s, e) == {e.stack[i].vid : i \in {j \in 1..Len(e.stack) :
                          e.stack[j].kind = "dm" /\ ~e.stack[j].nul /\ e.stack[j].vid \notin s.vids}}

\* the deletes one call applied to one key, in call order ("" = a plain delete); a set of states
RECURSIVE ApplyDeletes(_, _, _)
ApplyDeletes(S, e, i) ==
  IF i > Len(e.vids) THEN S
  ELSE LET v == e.vids[i]
           next == UNION {
             IF v # ""
               THEN {r.st : r \in Step(s, Cfg, [op |-> "DeleteObjectVersion", b |-> e.b, k |-> e.k, vid |-> v])}
               ELSE UNION {{r.st : r \in Step(s, Cfg, [op |-> "DeleteObject", b |-> e.b, k |-> e.k, vid |-> m])}
                             : m \in {""} \cup NewMarkerIds(s, e)}
             : s \in S}
       IN ApplyDeletes(next, e, i + 1)

Successors(s, e) ==
  CASE e.op = "CreateBucket"      -> {r.st : r \in Step(s, Cfg, [op |-> "CreateBucket", b |-> e.b])}
    [] e.op = "DeleteBucket"      -> {r.st : r \in Step(s, Cfg, [op |-> "DeleteBucket", b |-> e.b])}
    [] e.op = "ForceDeleteBucket" -> {r.st : r \in Step(s, Cfg, [op |-> "DeleteBucket", b |-> e.b, force |-> TRUE])}
    [] e.op = "PutVersioning"     ->
         IF ~e.exists THEN {s}
         ELSE {r.st : r \in Step(s, Cfg, [op |-> "PutVersioning", b |-> e.b,
                                          status |-> IF e.ver = "Enabled" THEN "Enabled" ELSE "Suspended"])}
                \cup {s}    \* (a refused configuration, e.g. MFA delete, changes nothing)
    [] e.op = "PutObject"         ->
         IF ~e.exists \/ e.stack = <<>> THEN {s}
         ELSE {r.st : r \in Step(s, Cfg, [op |-> "PutObject", b |-> e.b, k |-> e.k, body |-> BodyOf(Top(e).body),
                                          meta |-> <<>>, vid |-> IF Top(e).nul THEN "" ELSE Top(e).vid])}
    [] e.op = "DeleteObjectVersion" ->
         IF ~e.exists THEN {s} ELSE ApplyDeletes({s}, e, 1)
    [] OTHER -> {}

Init == TLCSet(1, 0) /\ l = 1 /\ st = InitState

Reset == /\ l <= Len(Trace) /\ Ev.op = "reset"
         /\ st' = InitState /\ l' = l + 1

Apply == /\ l <= Len(Trace) /\ Ev.op # "reset"
         /\ \E s2 \in Successors(st, Ev) :
              /\ StateMatches(s2, Ev)
              \* only the parts the event shows are compared; the rest of the chosen outcome is kept
              /\ st' = s2
         /\ l' = l + 1

Next == Reset \/ Apply
Spec == Init /\ [][Next]_vars

\* furthest event reached (outcomes that agree on what the event shows may differ elsewhere, so the
\* behaviour graph can branch: the diameter would not do)
HighWater == TLCSet(1, IF l > TLCGet(1) THEN l ELSE TLCGet(1))      \* a CONSTRAINT; one worker
Accepted == IF TLCGet(1) > Len(Trace) THEN TRUE
            ELSE PrintT(<<"REJECTED-AT", TLCGet(1), Len(Trace)>>) /\ FALSE
=============================================================================
