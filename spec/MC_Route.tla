------------------------------ MODULE MC_Route ------------------------------
(***************************************************************************)
(* C16: for one routing configuration, every (Host, path) of the generated *)
(* table is resolved by S3Route!Resolve; the tour stores distinguishable   *)
(* objects path-style and then probes each (Host, path) with GET, HEAD and *)
(* a listing, expecting what S3!Step answers for the resolved bucket/key.  *)
(* RouteEquiv is checked as an invariant.                                  *)
(***************************************************************************)
EXTENDS S3, S3Route, MC_RouteData, Json

CONSTANTS CfgName
VARIABLES dummy
vars == <<dummy>>

Cfg == [DefaultCfg EXCEPT !.versioned = FALSE, !.paginate = FALSE]
RC == RCfgOf(CfgName)

K1 == <<107>>            \* k
K2 == <<100, 47, 120>>   \* d/x
\* objects with distinct bodies; bkt1 also holds keys that look like "bucket/key"
Objects == << [b |-> "bkt1", k |-> K1, body |-> <<"o1">>], [b |-> "bkt1", k |-> K2, body |-> <<"o2">>],
              [b |-> "bkt2", k |-> K1, body |-> <<"o3">>], [b |-> "bkt1", k |-> <<98,107,116,50,47,107>>, body |-> <<"o4">>],
              [b |-> "bkt2", k |-> <<98,107,116,49,47,107>>, body |-> <<"o5">>] >>
SetupOps == << [op |-> "CreateBucket", b |-> "bkt1"], [op |-> "CreateBucket", b |-> "bkt2"] >>
            \o [i \in 1..Len(Objects) |-> [op |-> "PutObject", b |-> Objects[i].b, k |-> Objects[i].k,
                                          body |-> Objects[i].body, meta |-> <<>>, vid |-> ""]]
RECURSIVE Run(_, _, _)
Run(s, ops, i) ==
  IF i > Len(ops) THEN [st |-> s, h |-> <<>>]
  ELSE LET res == CHOOSE r \in Step(s, Cfg, ops[i]) : TRUE
           rest == Run(res.st, ops, i + 1)
       IN [st |-> rest.st, h |-> <<[op |-> ops[i], r |-> res.r]>> \o rest.h]

BName(bs) == NameOf(bs)     \* resolved bucket bytes -> the model's bucket name ("?" = no such bucket)

\* the abstract operation a raw GET on (host, path) amounts to
Probe(s, h, p, method) ==
  LET rs == Resolve(RC, h.v, p.v)
      raw == [host |-> h.n, path |-> p.n] IN
  IF rs.bucket = <<>> THEN
       [op |-> [op |-> "ListBuckets"] @@ raw, r |-> (CHOOSE r \in Step(s, Cfg, [op |-> "ListBuckets"]) : TRUE).r]
  ELSE IF rs.key = <<>> THEN
       LET o == [op |-> IF method = "GET" THEN "ListObjects" ELSE "HeadBucket", b |-> BName(rs.bucket), v2 |-> FALSE,
                 prefix |-> <<>>, delim |-> <<>>, max |-> 0, marker |-> <<>>, hasMarker |-> FALSE] IN
       [op |-> o @@ raw, r |-> (CHOOSE r \in Step(s, Cfg, o) : TRUE).r]
  ELSE LET o == [op |-> IF method = "GET" THEN "GetObject" ELSE "HeadObject", b |-> BName(rs.bucket), k |-> rs.key] IN
       [op |-> o @@ raw, r |-> (CHOOSE r \in Step(s, Cfg, o) : TRUE).r]

Tour ==
  LET setup == Run(InitState, SetupOps, 1)
      hs == SetToSeq(Hosts)
      ps == SetToSeq(Paths) IN
  [h |-> setup.h
         \o Flatten([i \in 1..Len(hs) |-> Flatten([j \in 1..Len(ps) |->
               << Probe(setup.st, hs[i], ps[j], "GET"), Probe(setup.st, hs[i], ps[j], "HEAD") >>])]),
   nsetup |-> Len(setup.h)]

Init == dummy = 0
Next == UNCHANGED dummy
Spec == Init /\ [][Next]_vars
EmitInv == PrintT(ToJson(Tour))
Equiv == \A l \in Labels : \A base \in Bases : \A p \in KeyPaths :
           \* the base must be one the configuration knows (or plain host-bucket mode)
           ((RC.bases = <<>> /\ RC.hostBucket) \/ (\E i \in 1..Len(RC.bases) : Trim(RC.bases[i], Dot) = base))
             => RouteEquiv(RC, l, base, p)
=============================================================================
