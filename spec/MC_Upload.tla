------------------------------ MODULE MC_Upload ------------------------------
(***************************************************************************)
(* C08: the cross product of upload-attempt classes.  One tour per         *)
(* (target, prior state): the setup, then every attempt of the class       *)
(* product, each followed by a spec-computed audit of the addressed key,   *)
(* the bucket listing and (for part uploads) the pending upload.           *)
(* RejectedUnchanged is evaluated on every attempt.                        *)
(***************************************************************************)
EXTENDS S3, Json

CONSTANTS Integrity, CfgName,
          FailPoints,  \* abstract points after which the body reader fails
          LongKeys     \* FALSE: no 1024-byte keys (a real directory cannot hold the flattened
                       \* metadata file name of such a key: outside that backend's key domain)
VARIABLES case
vars == <<case>>

Cfg == [(IF CfgName = "single" THEN [DefaultCfg EXCEPT !.single = "bkt1"] ELSE DefaultCfg)
          EXCEPT !.versioned = FALSE, !.paginate = FALSE, !.integrity = Integrity]
B == "bkt1"
K == <<100, 47, 107>>     \* d/k
Old == <<"old">>
New == <<"new">>

Targets == {"put", "chunked", "post", "part"}
Priors  == {"absent", "existing"}
Cases   == {[t |-> t, p |-> p] : t \in Targets, p \in Priors}

Digests(t) == IF t = "post" THEN {"none"} ELSE {"none", "good", "malformed", "short", "empty"} \cup WrongDigests
Lengths(t) == IF t = "post" THEN {"exact"}
              ELSE IF t = "chunked" THEN {"exact", "shorter", "longer"}     \* declared decoded length vs payload
              ELSE {"exact", "shorter", "longer", "missing", "negative", "nonnumeric"}
KeyClasses(t) == IF t = "part" THEN {"ok"} ELSE IF LongKeys THEN {"ok", "max", "over"} ELSE {"ok", "over"}
MetaClasses(t) == IF t = "part" THEN {"ok"} ELSE {"ok", "over"}

Attempt(t, d, l, kc, mc, f) ==
  [op |-> "Upload", target |-> t, b |-> B, k |-> K, body |-> New, meta |-> [m1 |-> "A"], vid |-> "",
   digest |-> d, length |-> l, keyClass |-> kc, metaClass |-> mc, failAt |-> f, uid |-> "u1", n |-> 1]

\* the full product of single deviations and pairs (digest x length), plus reader failures
Attempts(t) ==
     {Attempt(t, d, l, "ok", "ok", -1) : d \in Digests(t), l \in Lengths(t)}
\cup {Attempt(t, d, "exact", kc, mc, -1) : d \in Digests(t), kc \in KeyClasses(t), mc \in MetaClasses(t)}
\cup {Attempt(t, "none", l, kc, "ok", -1) : l \in Lengths(t), kc \in KeyClasses(t)}
\* (point 4: after the last payload byte of an aws-chunked stream, before its terminating chunk -- every declared byte
\* has arrived, the stream has not ended)
\cup (IF t = "post" THEN {} ELSE {Attempt(t, d, "exact", "ok", "ok", f) : d \in {"none", "good", "wrong"},
                                       f \in (IF t = "chunked" THEN FailPoints ELSE FailPoints \ {4})})

Init0 == IF Cfg.single # "" THEN [InitState EXCEPT !.bk = Upd(<<>>, Cfg.single, NewBucket)] ELSE InitState

SetupOps(c) ==
  (IF Cfg.single = "" THEN <<[op |-> "CreateBucket", b |-> B]>> ELSE <<>>)
  \o (IF c.p = "existing"
        THEN << [op |-> "PutObject", b |-> B, k |-> K, body |-> Old, meta |-> [m2 |-> "B"], vid |-> ""],
                [op |-> "PutObject", b |-> B, k |-> K \o (IF LongKeys THEN <<33>> ELSE <<50>>), body |-> Old, meta |-> <<>>, vid |-> ""] >>
        ELSE <<>>)
  \o (IF c.t = "part"
        THEN << [op |-> "Initiate", b |-> B, k |-> K, meta |-> <<>>, uid |-> "u1"] >>
             \o (IF c.p = "existing" THEN << [op |-> "UploadPart", b |-> B, k |-> K, uid |-> "u1", n |-> 1, body |-> Old] >> ELSE <<>>)
        ELSE <<>>)

AuditOps(c, a) ==
  << [op |-> "GetObject", b |-> B, k |-> UploadKey(a)],
     [op |-> "GetObject", b |-> B, k |-> K],
     [op |-> "ListObjects", b |-> B, v2 |-> FALSE, prefix |-> <<>>, delim |-> <<>>, max |-> 0, marker |-> <<>>, hasMarker |-> FALSE],
     [op |-> "ListObjects", b |-> B, v2 |-> FALSE, prefix |-> <<>>, delim |-> <<47>>, max |-> 0, marker |-> <<>>, hasMarker |-> FALSE] >>
  \o (IF c.t = "part" THEN << [op |-> "ListParts", b |-> B, k |-> K, uid |-> "u1", marker |-> 0, max |-> 0] >> ELSE <<>>)

RECURSIVE Run(_, _, _)
Run(s, ops, i) ==
  IF i > Len(ops) THEN [st |-> s, h |-> <<>>]
  ELSE LET res == CHOOSE r \in Step(s, Cfg, ops[i]) : TRUE
           rest == Run(res.st, ops, i + 1)
       IN [st |-> rest.st, h |-> <<[op |-> ops[i], r |-> res.r]>> \o rest.h]

\* every attempt starts from the same prior state: re-establish it after an accepted one
Restore(c) ==
  IF c.t = "part"
    THEN (IF c.p = "existing" THEN << [op |-> "UploadPart", b |-> B, k |-> K, uid |-> "u1", n |-> 1, body |-> Old] >> ELSE <<>>)
    ELSE (IF c.p = "existing"
            THEN << [op |-> "PutObject", b |-> B, k |-> K, body |-> Old, meta |-> [m2 |-> "B"], vid |-> ""],
                    [op |-> "PutObject", b |-> B, k |-> K \o (IF LongKeys THEN <<33>> ELSE <<50>>), body |-> Old, meta |-> <<>>, vid |-> ""] >>
            ELSE << [op |-> "DeleteObject", b |-> B, k |-> K, vid |-> ""],
                    [op |-> "DeleteObject", b |-> B, k |-> K \o (IF LongKeys THEN <<33>> ELSE <<50>>), vid |-> ""] >>)

Accepted(a) == UploadProblems(Cfg, a) = {}
AllOps(c) ==
  LET as == SetToSeq(Attempts(c.t)) IN
  SetupOps(c) \o Flatten([i \in 1..Len(as) |->
       <<as[i]>> \o AuditOps(c, as[i]) \o (IF Accepted(as[i]) /\ ~(c.t = "part" /\ c.p = "absent") THEN Restore(c) ELSE <<>>)])

\* part uploads: at the end the upload is completed with the part it holds and the object read back --
\* a refused re-upload must not have touched the bytes of the part that stayed
FinalOps(c, s) ==
  IF c.t = "part" /\ "u1" \in DOMAIN s.up /\ 1 \in DOMAIN s.up["u1"].parts
    THEN << [op |-> "Complete", b |-> B, k |-> K, uid |-> "u1", vid |-> "",
             list |-> <<[n |-> 1, body |-> s.up["u1"].parts[1]]>>],
            [op |-> "GetObject", b |-> B, k |-> K] >>
    ELSE <<>>
Tour(c) ==
  LET main == Run(Init0, AllOps(c), 1)
      fin  == Run(main.st, FinalOps(c, main.st), 1)
  IN [h |-> main.h \o fin.h]

Init == case \in Cases
Next == UNCHANGED case
Spec == Init /\ [][Next]_vars
EmitInv == PrintT(ToJson(Tour(case)))

\* the design property on every attempt from the prior state
Unchanged ==
  LET s0 == Run(Init0, SetupOps(case), 1).st IN
  \A a \in Attempts(case.t) : \A res \in Step(s0, Cfg, a) : RejectedUnchangedStep(s0, Cfg, a, res)
=============================================================================
