------------------------------ MODULE S3Types ------------------------------
(***************************************************************************)
(* Data abstraction shared by every module of the gofakes3 specification.  *)
(*                                                                         *)
(*  - keys, prefixes, delimiters, markers: sequences of byte values        *)
(*    (<<97,47,98>> is "a/b"); LexLess is ascending UTF-8 byte order.      *)
(*  - bodies: sequences of opaque atoms (<<"x1">>, <<"p1","p2">> is the    *)
(*    concatenation of two part bodies, <<>> is the empty body).  The      *)
(*    harness maps atoms to bytes; digests are terms the harness computes. *)
(*  - dynamic-domain functions (Upd / Del) so that traces can bring any    *)
(*    bucket or key.                                                       *)
(***************************************************************************)
EXTENDS Integers, Sequences, FiniteSets, TLC, SequencesExt

MinOf(S) == CHOOSE x \in S : \A y \in S : x <= y
MaxOf(S) == CHOOSE x \in S : \A y \in S : x >= y

Upd(f, k, v) == [x \in (DOMAIN f) \cup {k} |-> IF x = k THEN v ELSE f[x]]
Del(f, k)    == [x \in (DOMAIN f) \ {k} |-> f[x]]
Img(f)       == {f[x] : x \in DOMAIN f}
Get(f, k, d) == IF k \in DOMAIN f THEN f[k] ELSE d

\* ---- ascending UTF-8 byte order on byte sequences ----
LexLess(a, b) ==
  \E i \in 1..(Len(a) + 1) :
     /\ \A j \in 1..(i - 1) : j <= Len(b) /\ a[j] = b[j]
     /\ \/ i = Len(a) + 1 /\ Len(b) >= i
        \/ i <= Len(a) /\ i <= Len(b) /\ a[i] < b[i]
LexLeq(a, b) == a = b \/ LexLess(a, b)
SortKeys(S)  == SortSeq(SetToSeq(S), LexLess)

StartsWith(k, p) == Len(p) <= Len(k) /\ SubSeq(k, 1, Len(p)) = p
Rest(k, p)       == SubSeq(k, Len(p) + 1, Len(k))
\* index of the first occurrence of the (non-empty) delimiter d in r, 0 if none
DelimIdx(r, d)   == LET hits == {i \in 1..(Len(r) - Len(d) + 1) :
                                   SubSeq(r, i, i + Len(d) - 1) = d}
                    IN IF hits = {} THEN 0 ELSE MinOf(hits)

\* ---- C03: a matching key is listed itself, or rolled up into one prefix ----
Group(k, p, d) ==
  IF d = <<>> \/ DelimIdx(Rest(k, p), d) = 0
    THEN [kind |-> "key", name |-> k]
    ELSE [kind |-> "prefix",
          name |-> p \o SubSeq(Rest(k, p), 1, DelimIdx(Rest(k, p), d) + Len(d) - 1)]
Matching(live, p)        == {x \in live : StartsWith(x, p)}
Entries(live, p, d)      == {Group(k, p, d) : k \in Matching(live, p)}
ListKeys(live, p, d)     == SortKeys({e.name : e \in {x \in Entries(live, p, d) : x.kind = "key"}})
ListPrefixes(live, p, d) == SortKeys({e.name : e \in {x \in Entries(live, p, d) : x.kind = "prefix"}})
\* all entries (keys and prefixes) merged in byte order, as S3 pages them
ListMerged(live, p, d)   == SortSeq(SetToSeq(Entries(live, p, d)),
                                    LAMBDA x, y : LexLess(x.name, y.name))
Members(live, p, d, q)   == {k \in Matching(live, p) :
                               Group(k, p, d) = [kind |-> "prefix", name |-> q]}

\* a second, declarative characterisation used to cross-check the above
\* (ListExact in MC_List): every matching key is represented exactly once
Represented(k, p, d, keys, prefixes) ==
  LET inKeys == Cardinality({i \in 1..Len(keys) : keys[i] = k})
      pre    == {i \in 1..Len(prefixes) : StartsWith(k, prefixes[i])}
  IN IF d # <<>> /\ DelimIdx(Rest(k, p), d) # 0
       THEN inKeys = 0 /\ Cardinality(pre) = 1
       ELSE inKeys = 1
Ascending(s) == \A i \in 1..(Len(s) - 1) : LexLess(s[i], s[i + 1])

SeqSum(s) == FoldLeft(LAMBDA a, b : a + b, 0, s)
Flatten(ss) == FoldLeft(LAMBDA a, b : a \o b, <<>>, ss)
=============================================================================
