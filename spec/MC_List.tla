------------------------------ MODULE MC_List ------------------------------
(***************************************************************************)
(* Exhaustive listing cases (C03, and the store states for C04's walks).   *)
(*                                                                         *)
(* One TLC "state" per key set over a small alphabet that contains the     *)
(* delimiter '/' (47), a byte below it '-' (45) and letters.  For every    *)
(* key set the module builds ONE tour: create the bucket, write and delete *)
(* some dead keys, write the live keys (some twice), then every single-    *)
(* page listing query (prefix x delimiter x V1/V2), each with the reply    *)
(* that S3!Step predicts.  EmitInv prints the tour; the harness replays    *)
(* it.  ListExact cross-checks the operational listing definition of       *)
(* S3Types against a declarative one on every case.                        *)
(***************************************************************************)
EXTENDS S3, Json, FiniteSetsExt

CONSTANTS
  Alphabet,     \* set of byte values, must contain 47
  MaxLen,       \* maximal key length
  MaxSet,       \* maximal number of live keys
  PrefixLen,    \* maximal prefix length
  Delims,       \* set of delimiter bytes to use (0 = no delimiter)
  FsDomain,     \* TRUE: only key sets within the fs backends' key domain
  CfgName,
  Shard, Shards, \* (reserved)
  Markers,      \* TRUE: add single-page queries under arbitrary markers (paginating backends)
  EmptySegs,    \* TRUE: only key sets holding a key with an empty segment (a//b: legal on the key-value backends)
  MultiDead     \* TRUE: the dead keys (a/a, a/b, b/a/a) go in ONE multi-object delete (whole directories emptied by a batch)

VARIABLES ks
vars == <<ks>>

Cfg ==
  CASE CfgName = "plain"  -> [DefaultCfg EXCEPT !.versioned = FALSE, !.paginate = FALSE]
    [] CfgName = "mem"    -> DefaultCfg
    [] CfgName = "single" -> [DefaultCfg EXCEPT !.versioned = FALSE, !.paginate = FALSE, !.single = "bkt1"]

B == "bkt1"

SeqsOfLen(n) == [1..n -> Alphabet]
AllSeqs(n)   == UNION {SeqsOfLen(i) : i \in 1..n}
\* keys neither start nor end with '/', and have no empty segment
\* ... and no segment is '.' or '..' (not canonical paths: outside the fs key domain, C10's subject)
Segs(k) == LET cuts == {0, Len(k) + 1} \cup {i \in 1..Len(k) : k[i] = 47}
               NextCut(a) == CHOOSE x \in cuts : x > a /\ \A y \in cuts : ~(y > a /\ y < x) IN
           {SubSeq(k, a + 1, NextCut(a) - 1) : a \in cuts \ {Len(k) + 1}}
HasEmptySeg(k) == \E i \in 1..(Len(k) - 1) : k[i] = 47 /\ k[i + 1] = 47
GoodKey(k) == /\ k[1] # 47 /\ k[Len(k)] # 47 /\ (EmptySegs \/ ~HasEmptySeg(k))
              /\ <<46>> \notin Segs(k) /\ <<46, 46>> \notin Segs(k)
Universe   == {k \in AllSeqs(MaxLen) : GoodKey(k)}
\* fs key domain: no key is a directory of another key
DirOf(a, b) == Len(a) < Len(b) /\ SubSeq(b, 1, Len(a)) = a /\ b[Len(a) + 1] = 47
FsOK(S) == \A a, b \in S : ~DirOf(a, b)

KeySets == {S \in UNION {kSubset(n, Universe) : n \in 0..MaxSet} :
               /\ FsDomain => FsOK(S)
               /\ EmptySegs => \E k \in S : HasEmptySeg(k)}

PrefixSet == {<<>>} \cup {p \in AllSeqs(PrefixLen) : p[1] # 47}
\* a delimiter is usable when no live key starts or ends with it
DelimOK(S, d) == d = 0 \/ \A k \in S : k[1] # d /\ k[Len(k)] # d
DelimSeq(d) == IF d = 0 THEN <<>> ELSE <<d>>

\* two keys that are written and deleted again before the live keys arrive
\* (MultiDead: a/a, a/b and b/a/a -- the batch empties a directory, and a chain of two)
Dead(S) == (IF MultiDead THEN {<<97, 47, 97>>, <<97, 47, 98>>, <<98, 47, 97, 47, 97>>} ELSE {<<97, 47, 97>>, <<98>>}) \ S

Body(i) == IF i % 3 = 0 THEN <<>> ELSE IF i % 3 = 1 THEN <<"x1">> ELSE <<"x2">>

Put(k, body) == [op |-> "PutObject", b |-> B, k |-> k, body |-> body, meta |-> <<>>, vid |-> ""]
Setup(S) ==
  LET live == SortKeys(S)
      dead == SortKeys(Dead(S)) IN
  (IF Cfg.single = "" THEN <<[op |-> "CreateBucket", b |-> B]>> ELSE <<>>)
  \o [i \in 1..Len(dead) |-> Put(dead[i], <<"x2">>)]
  \o (IF MultiDead /\ dead # <<>>
        THEN <<[op |-> "DeleteMulti", b |-> B, objs |-> [i \in 1..Len(dead) |-> [k |-> dead[i], vid |-> ""]]]>>
        ELSE [i \in 1..Len(dead) |-> [op |-> "DeleteObject", b |-> B, k |-> dead[i], vid |-> ""]])
  \o [i \in 1..Len(live) |-> Put(live[i], <<"x2">>)]          \* first write ...
  \o [i \in 1..Len(live) |-> Put(live[Len(live) + 1 - i], Body(i))]   \* ... overwritten in reverse order

Queries(S) ==
  LET qs == UNION {{[op |-> "ListObjects", b |-> B, v2 |-> FALSE, prefix |-> p, delim |-> DelimSeq(d),
                     max |-> 0, marker |-> <<>>, hasMarker |-> FALSE]
                      : d \in {x \in Delims : DelimOK(S, x) /\ (p = <<>> \/ p[1] # x)}}
                   : p \in PrefixSet}
      \* arbitrary markers: every live key, keys that are not in the bucket,
      \* one inside a possible common prefix and one beyond the end (C04)
      ms == S \cup {<<97>>, <<97, 47>>, <<97, 47, 48>>, <<45, 45>>, <<122>>}
      mq == IF ~Markers THEN {} ELSE
            UNION {{[op |-> "ListObjects", b |-> B, v2 |-> FALSE, prefix |-> p, delim |-> DelimSeq(d),
                     max |-> 0, marker |-> m, hasMarker |-> TRUE, markerKind |-> mk]
                      : d \in {x \in Delims : DelimOK(S, x) /\ (p = <<>> \/ p[1] # x)},
                        m \in ms, mk \in {"start", "token"}}
                   : p \in {<<>>, <<97>>}}
  IN SetToSeq(qs) \o SetToSeq(mq)

Init0 == IF Cfg.single # "" THEN [InitState EXCEPT !.bk = Upd(<<>>, Cfg.single, NewBucket)] ELSE InitState

RECURSIVE Run(_, _, _)
Run(s, ops, i) ==
  IF i > Len(ops) THEN [st |-> s, h |-> <<>>]
  ELSE LET res  == CHOOSE r \in Step(s, Cfg, ops[i]) : TRUE
           rest == Run(res.st, ops, i + 1)
       IN [st |-> rest.st, h |-> <<[op |-> ops[i], r |-> res.r]>> \o rest.h]

Tour(S) ==
  LET setup == Run(Init0, Setup(S), 1)
      qs    == Queries(S)
      rs    == [i \in 1..Len(qs) |-> (CHOOSE r \in Step(setup.st, Cfg, qs[i]) : TRUE).r]
      \* V1 and V2 have the same single-page semantics: the reply is computed once
  IN [h |-> setup.h \o [i \in 1..Len(qs) |-> [op |-> qs[i], r |-> rs[i]]]
                    \o [i \in 1..Len(qs) |-> [op |-> [qs[i] EXCEPT !.v2 = TRUE], r |-> rs[i]]],
      fin |-> Snap(setup.st),
      nsetup |-> Len(setup.h)]

\* ---- enumeration: one initial state per key set, no transitions ----
Index(S) == Cardinality({T \in KeySets : Cardinality(T) < Cardinality(S)})   \* coarse shard key
Init == ks \in KeySets
Next == UNCHANGED ks
Spec == Init /\ [][Next]_vars

EmitInv == PrintT(ToJson(Tour(ks)))

\* ---- the design property: the operational listing is exact ----
\* (declarative restatement of C03 evaluated on every case and every query)
ListExact ==
  \A p \in PrefixSet : \A d \in {x \in Delims : DelimOK(ks, x) /\ (p = <<>> \/ p[1] # x)} :
     LET keys == ListKeys(ks, p, DelimSeq(d))
         pres == ListPrefixes(ks, p, DelimSeq(d)) IN
     /\ Ascending(keys) /\ Ascending(pres)
     /\ \A i \in 1..Len(keys) : keys[i] \in ks /\ StartsWith(keys[i], p)
     /\ \A i \in 1..Len(pres) : StartsWith(pres[i], p) /\ Len(pres[i]) > Len(p)
                                /\ (\E k \in ks : StartsWith(k, pres[i]))
                                /\ pres[i][Len(pres[i])] = d
                                /\ DelimIdx(Rest(pres[i], p), DelimSeq(d)) = Len(pres[i]) - Len(p)
     /\ \A k \in ks : StartsWith(k, p) => Represented(k, p, DelimSeq(d), keys, pres)
     /\ \A k \in ks : ~StartsWith(k, p) =>
          (\A i \in 1..Len(keys) : keys[i] # k)
=============================================================================
