------------------------------ MODULE S3Chunked ------------------------------
(***************************************************************************)
(* C12: the STREAMING-AWS4-HMAC-SHA256-PAYLOAD framing.                    *)
(*                                                                         *)
(* A stream is a sequence of frames; a frame carries a payload length.     *)
(* On the wire:  hex(len) ";chunk-signature=" 64-hex CR LF payload CR LF,  *)
(* terminated by a frame of length 0.  Decoding is the concatenation of    *)
(* the payloads -- independent of how the transport splits the byte stream *)
(* into reads and of the buffer sizes the consumer reads with: that        *)
(* independence is the content of C12 and is what the environment          *)
(* nondeterminism below quantifies over.                                   *)
(*                                                                         *)
(* The decoder is modelled as the state machine the wire format induces:   *)
(*   phase \in {"size","sig","data","crlf","done","bad"}                   *)
(* consuming one transport fragment per step; `Deliver` hands decoded      *)
(* bytes to a consumer with a bounded buffer.  DecodeExact: whatever the   *)
(* fragmentation, at "done" exactly the payload has been delivered.        *)
(***************************************************************************)
EXTENDS Integers, Sequences, FiniteSets

\* abstract wire: a sequence of tokens; payload bytes are numbered so that
\* order and completeness can be checked:  <<"H",n>> header of a chunk of n
\* bytes (size, signature, CRLF: HdrLen(n) wire bytes), <<"D",i>> the i-th
\* payload byte, <<"C">> one byte of the CR LF after a chunk.
HexDigits(n) == IF n < 16 THEN 1 ELSE IF n < 256 THEN 2 ELSE IF n < 4096 THEN 3 ELSE IF n < 65536 THEN 4 ELSE 5
HdrLen(n) == HexDigits(n) + 1 + 16 + 64 + 2

RECURSIVE Wire(_, _)
Wire(chunks, from) ==       \* chunks: Seq(Nat) payload lengths; from: number of the first payload byte
  IF chunks = <<>> THEN <<>>
  ELSE [i \in 1..HdrLen(Head(chunks)) |-> <<"H", Head(chunks), i>>]
       \o [i \in 1..Head(chunks) |-> <<"D", from + i - 1>>]
       \o << <<"C", 1>>, <<"C", 2>> >>
       \o Wire(Tail(chunks), from + Head(chunks))

Sum(s) == IF s = <<>> THEN 0 ELSE LET RECURSIVE F(_) F(i) == IF i = 0 THEN 0 ELSE s[i] + F(i - 1) IN F(Len(s))
Payload(chunks) == [i \in 1..Sum(chunks) |-> i]

\* a well-formed stream ends with the zero-length chunk; gofakes3 also
\* tolerates its absence (cosmetic deviation, DESIGN 5.2)
Stream(chunks, final) == Wire(chunks \o (IF final THEN <<0>> ELSE <<>>), 1)

\* what a correct decoder delivers from a prefix of the wire (used by the
\* state machine model MC_Chunked)
DataOf(w) == [i \in 1..Len(SelectSeq(w, LAMBDA t : t[1] = "D")) |-> SelectSeq(w, LAMBDA t : t[1] = "D")[i][2]]

\* malformed streams (C12's notion): non-hex size, stream truncated inside a
\* header or inside chunk data, decoded length different from the declared one
MalformedKinds == {"nonhex", "trunc-header", "trunc-data", "declared-short", "declared-long"}
=============================================================================
