------------------------------ MODULE S3Route ------------------------------
(***************************************************************************)
(* C16: which (bucket, key) a request addresses, as a function of the      *)
(* routing options, the Host header and the URL path (byte sequences).     *)
(*                                                                         *)
(* rcfg = [hostBucket : BOOLEAN, bases : Seq(host)]                        *)
(*  - bases non-empty: a host "<label>.<base>" (label without dots, base   *)
(*    compared with surrounding dots trimmed) addresses bucket <label>,    *)
(*    the path is the key; any other host falls back to path-style;        *)
(*  - else hostBucket: the first label of the host is the bucket;          *)
(*  - else path-style: "/<bucket>/<key>".                                  *)
(* Slashes before the bucket and at the end of the path are insignificant. *)
(***************************************************************************)
EXTENDS Integers, Sequences, FiniteSets

Slash == 47
Dot == 46

RECURSIVE TrimLeft(_, _), TrimRight(_, _)
TrimLeft(s, c)  == IF s # <<>> /\ s[1] = c THEN TrimLeft(Tail(s), c) ELSE s
TrimRight(s, c) == IF s # <<>> /\ s[Len(s)] = c THEN TrimRight(SubSeq(s, 1, Len(s) - 1), c) ELSE s
Trim(s, c) == TrimRight(TrimLeft(s, c), c)

FirstIdx(s, c) == LET hits == {i \in 1..Len(s) : s[i] = c} IN
                  IF hits = {} THEN 0 ELSE CHOOSE i \in hits : \A j \in hits : i <= j
EndsWith(s, t) == Len(t) <= Len(s) /\ SubSeq(s, Len(s) - Len(t) + 1, Len(s)) = t

\* path-style split of an (effective) path
PathSplit(path) ==
  LET p == Trim(path, Slash)
      i == FirstIdx(p, Slash) IN
  IF i = 0 THEN [bucket |-> p, key |-> <<>>]
  ELSE [bucket |-> SubSeq(p, 1, i - 1), key |-> SubSeq(p, i + 1, Len(p))]

\* the bucket the Host header names, or "none"
RECURSIVE MatchBase(_, _, _)
MatchBase(host, bases, i) ==
  IF i > Len(bases) THEN [ok |-> FALSE, bucket |-> <<>>]
  ELSE LET base == <<Dot>> \o Trim(bases[i], Dot) IN
       IF EndsWith(host, base) /\ FirstIdx(SubSeq(host, 1, Len(host) - Len(base)), Dot) = 0
         THEN [ok |-> TRUE, bucket |-> SubSeq(host, 1, Len(host) - Len(base))]
         ELSE MatchBase(host, bases, i + 1)

HostBucketOf(rcfg, host) ==
  IF rcfg.bases # <<>> THEN MatchBase(host, rcfg.bases, 1)
  ELSE IF rcfg.hostBucket
    THEN LET i == FirstIdx(host, Dot) IN
         [ok |-> TRUE, bucket |-> IF i = 0 THEN host ELSE SubSeq(host, 1, i - 1)]
  ELSE [ok |-> FALSE, bucket |-> <<>>]

EffectivePath(rcfg, host, path) ==
  LET hb == HostBucketOf(rcfg, host) IN
  IF hb.ok THEN <<Slash>> \o hb.bucket \o (IF path = <<Slash>> THEN <<>> ELSE path)
  ELSE path

Resolve(rcfg, host, path) == PathSplit(EffectivePath(rcfg, host, path))

PathStyle == [hostBucket |-> FALSE, bases |-> <<>>]

\* RouteEquiv: virtual-host addressing of (label, key path) resolves exactly
\* like path-style addressing of the same pair
RouteEquiv(rcfg, label, base, path) ==
  (rcfg.hostBucket \/ rcfg.bases # <<>>) =>
    Resolve(rcfg, label \o <<Dot>> \o base, path)
      = Resolve(PathStyle, <<>>, <<Slash>> \o label \o path)
=============================================================================
