----------------------------- MODULE MC_FrontEnd -----------------------------
(***************************************************************************)
(* S3!Step describes a request as ONE atomic transition.  The front end    *)
(* does not perform it in one piece: every bucket-scoped handler first     *)
(* asks the backend whether the bucket exists (ensureBucketExists: with    *)
(* the auto-bucket option it creates a missing bucket), and only then      *)
(* makes the call that does the work.  Each of these is atomic under the   *)
(* backend's lock, but the steps of other requests may come in between.    *)
(*                                                                         *)
(* This module models exactly that structure -- one action per call on the *)
(* backend, as the code makes them -- and lets TLC run small programs      *)
(* under every interleaving.  The invariant Atomic says that every request *)
(* nevertheless takes effect atomically (C07): one of its own steps is a   *)
(* linearization point, i.e. S3!Step applied to the state just before that *)
(* step yields the step's successor state and the request's reply, and its *)
(* other steps change nothing.                                             *)
(*                                                                         *)
(*   Auto = FALSE : Atomic holds for every program and interleaving (the   *)
(*                  existence check is then read-only and the call itself  *)
(*                  reports a bucket that disappeared in between).         *)
(*   Auto = TRUE  : TLC finds counterexamples -- the creation of the       *)
(*                  missing bucket is a state change of its own before the *)
(*                  linearization point, and a bucket deleted between the  *)
(*                  check and the call makes an auto-bucket PUT answer     *)
(*                  NoSuchBucket, which no sequential order explains.      *)
(*                  That is finding F35; the schedule explorer (harness    *)
(*                  sched.go, programs "auto-…") drives the same schedules *)
(*                  through the real code and TraceConc rejects them.      *)
(***************************************************************************)
EXTENDS S3, TLC

CONSTANTS Auto,        \* the auto-bucket option
          ProgName,    \* which program
          Exists       \* does bkt1 exist initially

K1 == <<107, 49>>
NoMeta == <<>>
Put(body)    == [op |-> "PutObject", b |-> "bkt1", k |-> K1, body |-> <<body>>, meta |-> NoMeta, vid |-> ""]
GetK         == [op |-> "GetObject", b |-> "bkt1", k |-> K1]
HeadK        == [op |-> "HeadObject", b |-> "bkt1", k |-> K1]
DelK         == [op |-> "DeleteObject", b |-> "bkt1", k |-> K1, vid |-> ""]
HeadB        == [op |-> "HeadBucket", b |-> "bkt1"]
DelB         == [op |-> "DeleteBucket", b |-> "bkt1"]
CreateB      == [op |-> "CreateBucket", b |-> "bkt1"]

Program ==
  CASE ProgName = "put-deletebucket-headbucket" -> << <<Put("x1")>>, <<DelB>>, <<HeadB>> >>
    [] ProgName = "put-deletebucket-get"        -> << <<Put("x1")>>, <<DelB>>, <<GetK>> >>
    [] ProgName = "put-put-get"                 -> << <<Put("x1")>>, <<Put("x2")>>, <<GetK>> >>
    [] ProgName = "put-delete-head"             -> << <<Put("x1")>>, <<DelK>>, <<HeadK>> >>
    [] ProgName = "recreate-put"                -> << <<DelB, CreateB>>, <<Put("x1")>>, <<HeadK>> >>
    [] ProgName = "two-by-two"                  -> << <<Put("x1"), GetK>>, <<DelK, DelB>> >>

Clients == 1..Len(Program)

Cfg       == [DefaultCfg EXCEPT !.auto = Auto]
CfgNoAuto == [DefaultCfg EXCEPT !.auto = FALSE]     \* what the backend itself does: it never creates a bucket on its own

VARIABLES st,     \* the store
          pc,     \* client -> index of its current request
          ph,     \* client -> "idle" | "missing" (the check said no; auto: about to create) | "checked"
          seen,   \* client -> the states in which the earlier steps of its current request were taken
          eff,    \* client -> the state changes <<pre, post>> made by the earlier steps of its current request
          last    \* the request that just finished: [op, r, seen, eff], or <<>>
vars == <<st, pc, ph, seen, eff, last>>

Init ==
  /\ st = IF Exists THEN [InitState EXCEPT !.bk = Upd(@, "bkt1", NewBucket)] ELSE InitState
  /\ pc = [c \in Clients |-> 1]
  /\ ph = [c \in Clients |-> "idle"]
  /\ seen = [c \in Clients |-> {}]
  /\ eff = [c \in Clients |-> <<>>]
  /\ last = <<>>

Cur1(c) == Program[c][pc[c]]
Busy(c) == pc[c] <= Len(Program[c])
Effects(c, post) == IF post = st THEN eff[c] ELSE Append(eff[c], <<st, post>>)

\* a step of c that is not its last: remembers where it was taken and what it changed
Stay(c, post, phase) ==
  /\ st' = post
  /\ ph' = [ph EXCEPT ![c] = phase]
  /\ seen' = [seen EXCEPT ![c] = @ \cup {st}]
  /\ eff' = [eff EXCEPT ![c] = Effects(c, post)]
  /\ UNCHANGED <<pc, last>>

\* the last step of c's current request, with the reply
Finish(c, post, r) ==
  /\ st' = post
  /\ last' = [op |-> Cur1(c), r |-> r, seen |-> seen[c] \cup {st}, eff |-> Effects(c, post)]
  /\ pc' = [pc EXCEPT ![c] = @ + 1]
  /\ ph' = [ph EXCEPT ![c] = "idle"]
  /\ seen' = [seen EXCEPT ![c] = {}]
  /\ eff' = [eff EXCEPT ![c] = <<>>]

\* createBucket makes no existence check of its own: one call
Create(c) ==
  /\ Busy(c) /\ ph[c] = "idle" /\ Cur1(c).op = "CreateBucket"
  /\ \E x \in Step(st, CfgNoAuto, Cur1(c)) : Finish(c, x.st, x.r)

\* storage.BucketExists
Check(c) ==
  /\ Busy(c) /\ ph[c] = "idle" /\ Cur1(c).op # "CreateBucket"
  /\ IF HasB(st, Cur1(c).b) THEN Stay(c, st, "checked")
     ELSE IF Auto THEN Stay(c, st, "missing")
     ELSE Finish(c, st, [st |-> 404, code |-> "NoSuchBucket"])

\* storage.CreateBucket of ensureBucketExists (auto-bucket option); a failure is reported as NoSuchBucket
AutoCreate(c) ==
  /\ Busy(c) /\ ph[c] = "missing"
  /\ IF HasB(st, Cur1(c).b)                 \* somebody else created it meanwhile: BucketAlreadyExists
       THEN Finish(c, st, [st |-> 404, code |-> "NoSuchBucket"])
       ELSE Stay(c, [st EXCEPT !.bk = Upd(@, Cur1(c).b, NewBucket)], "checked")

\* the call that does the work (HeadBucket has none: the check was all)
Call(c) ==
  /\ Busy(c) /\ ph[c] = "checked"
  /\ IF Cur1(c).op = "HeadBucket" THEN Finish(c, st, [st |-> 200, code |-> ""])
     ELSE \E x \in Step(st, CfgNoAuto, Cur1(c)) : Finish(c, x.st, x.r)

Next == \E c \in Clients : Create(c) \/ Check(c) \/ AutoCreate(c) \/ Call(c)
Spec == Init /\ [][Next]_vars

\* The request that just finished took effect atomically: it changed the store in at most one of its steps, and
\* S3!Step -- the request as one transition -- explains that change and the reply from the state in which that step
\* was taken (a request that changed nothing: from the state of any one of its steps).
Atomic ==
  last # <<>> =>
    /\ Len(last.eff) <= 1
    /\ IF Len(last.eff) = 1
         THEN \E y \in Step(last.eff[1][1], Cfg, last.op) : y.st = last.eff[1][2] /\ y.r = last.r
         ELSE \E s \in last.seen : \E y \in Step(s, Cfg, last.op) : y.st = s /\ y.r = last.r

\* the weaker reading: the effect may come in two pieces, but the reply must be one the atomic request could have
\* given in the state of one of its steps
ReplyExplained ==
  last # <<>> => \E s \in last.seen : \E y \in Step(s, Cfg, last.op) : y.r = last.r
=============================================================================
