----------------------------- MODULE MC_Requests -----------------------------
(***************************************************************************)
(* C09: the abstract request grammar of the routed S3 surface.             *)
(*                                                                         *)
(* A request is  method x path shape x set of routed sub-resources, with   *)
(* ONE further dimension varied away from its default: the value class of  *)
(* a parameter, a header class, or a body class.  TLC enumerates the       *)
(* product (one TLC state per (method, path shape)); each request is       *)
(* issued by the harness against prepared stores, and the observations     *)
(* are judged by TraceReq.tla (WellFormedReply, canary).                   *)
(***************************************************************************)
EXTENDS Integers, Sequences, FiniteSets, TLC, Json, SequencesExt

CONSTANT FullPaths   \* TRUE: every path shape gets every variation; FALSE: only "/", "/B", "/B/K" do
VARIABLES mp
vars == <<mp>>

Methods == {"GET", "HEAD", "PUT", "POST", "DELETE", "OPTIONS", "PATCH"}
\* B = an existing bucket, K an existing key, N absent names; extra slashes
Paths == {"/", "/B", "/B/", "/B/K", "//B//K", "/B/K/", "/N", "/N/K", "/B/N", "/B/K/deeper/x", "/B/%zz", "/./B", "/B/../N", "/.", "/.."}

\* routed sub-resources (query keys), alone and in the combinations the router distinguishes
SubSets == { {}, {"uploads"}, {"uploadId"}, {"versioning"}, {"versions"}, {"versionId"}, {"delete"}, {"location"},
             {"list-type"}, {"uploadId", "partNumber"}, {"uploads", "uploadId"}, {"versions", "versionId"},
             {"versioning", "versions"}, {"delete", "uploads"}, {"versionId", "uploadId"}, {"location", "versioning"},
             {"list-type", "versions"}, {"partNumber"}, {"uploads", "versionId"} }

\* parameters that carry a value, and the value classes
ValueParams == {"uploadId", "versionId", "partNumber", "list-type", "max-keys", "marker", "key-marker", "version-id-marker",
                "max-parts", "part-number-marker", "max-uploads", "continuation-token", "start-after", "prefix", "delimiter",
                "upload-id-marker", "fetch-owner", "encoding-type"}
\* (max63 / min63 / max31: exactly the largest and smallest 64-bit and the largest 32-bit signed integers)
ValueClasses == {"valid", "empty", "nonnumeric", "negative", "zero", "one", "huge", "over63", "max63", "min63", "max31",
                 "unknown", "weird"}

HeaderVars == {[h |-> "Range", v |-> x] : x \in {"bytes=0-1", "bytes=5-9223372036854775807", "bytes=-0", "bytes=9-1", "junk", "bytes=0-0,1-1"}}
         \cup {[h |-> "Content-MD5", v |-> x] : x \in {"junk", "", "MTIzNDU="}}
         \cup {[h |-> "Content-Length", v |-> x] : x \in {"-1", "abc", "", "1099511627776", "4611686018427387904", "0"}}
         \cup {[h |-> "X-Amz-Copy-Source", v |-> x] : x \in {"/B/K", "B/K", "B", "/B", "", "/", "/B/%zz", "/B/K?versionId=x", "/N/K", "/B/N", "//", "/B/K%2F"}}
         \cup {[h |-> "X-Amz-Content-Sha256", v |-> "STREAMING-AWS4-HMAC-SHA256-PAYLOAD"]}
         \cup {[h |-> "X-Amz-Decoded-Content-Length", v |-> x] : x \in {"abc", "-1", "5"}}
         \cup {[h |-> "If-None-Match", v |-> "*"], [h |-> "If-Modified-Since", v |-> "junk"],
               [h |-> "X-Amz-Date", v |-> "junk"], [h |-> "X-Amz-Date", v |-> "19700101T000000Z"],
               [h |-> "Content-Type", v |-> "multipart/form-data; boundary=x"], [h |-> "Content-Type", v |-> "multipart/form-data"],
               [h |-> "X-Minio-Force-Delete", v |-> "true"], [h |-> "X-Amz-Meta-Big", v |-> "BIG"],
               [h |-> "Origin", v |-> "http://example.org"]}

BodyClasses == {"empty", "delete-xml", "complete-xml", "complete-odd-etags", "complete-quotes-only", "complete-lone-quote", "versioning-xml", "truncated-xml", "wrong-root", "huge-numbers",
                "negative-part", "zero-part", "binary", "deep-xml", "versioning-bad-status", "chunked-garbage", "form"}

\* the default of every dimension
Base(m, p, s) == [method |-> m, path |-> p, subs |-> s, pname |-> "", pclass |-> "valid", hdr |-> [h |-> "", v |-> ""], body |-> "empty"]

RichPaths == {"/", "/B", "/B/K"}
Requests(m, p) ==
  UNION {
     {Base(m, p, s)}
     \cup (IF FullPaths \/ p \in RichPaths
           THEN {[Base(m, p, s) EXCEPT !.pname = n, !.pclass = c] : n \in ValueParams, c \in ValueClasses}
                \cup {[Base(m, p, s) EXCEPT !.body = b] : b \in BodyClasses}
           ELSE {})
     \cup {[Base(m, p, s) EXCEPT !.hdr = h] : h \in HeaderVars}
     : s \in SubSets }

Init == mp \in {[m |-> m, p |-> p] : m \in Methods, p \in Paths}
Next == UNCHANGED mp
Spec == Init /\ [][Next]_vars
EmitInv == PrintT(ToJson([reqs |-> SetToSeq(Requests(mp.m, mp.p))]))
=============================================================================
