------------------------------ MODULE MC_Names ------------------------------
(***************************************************************************)
(* C17, exhaustive in scope: every string over Alphabet up to length L is  *)
(* offered to CreateBucket; afterwards ListBuckets must show exactly the   *)
(* valid ones.  One tour per 2-byte prefix (the TLC "state").              *)
(***************************************************************************)
EXTENDS S3BucketName, TLC, Json, SequencesExt

CONSTANTS Alphabet, L, Extra   \* Extra = TRUE: one more tour with long names and IP-like names
VARIABLES pre
vars == <<pre>>

SeqsOfLen(n) == [1..n -> Alphabet]
UpTo(n) == UNION {SeqsOfLen(i) : i \in 0..n}
Groups == SeqsOfLen(2) \cup {<<>>} \cup (IF Extra THEN {<<0>>} ELSE {})
NamesOf(p) ==
  IF p = <<>> THEN SeqsOfLen(1)                        \* the 1-byte names
  ELSE IF p = <<0>> THEN {}                            \* the extra group, see ExtraNames
  ELSE {p \o x : x \in UpTo(L - 2)}

Rep(c, n) == [i \in 1..n |-> c]
Str(s) == s   \* names are byte sequences already
IPish == { <<49,57,50,46,49,54,56,46,49,48,48,46,50,48,48>>,        \* 192.168.100.200 : an address
           <<49,48,48,46,49,48,48,46,49,48,48,46,49,48,48>>,        \* 100.100.100.100 : an address
           <<50,53,53,46,50,53,53,46,50,53,53,46,50,53,53>>,        \* 255.255.255.255 : an address
           <<57,57,57,46,57,57,57,46,57,57,57,46,57,57,57>>,        \* 999.999.999.999 : ambiguous
           <<48,49,48,46,48,48,49,46,48,48,49,46,48,48,49>>,        \* 010.001.001.001 : ambiguous
           <<49,57,50,46,49,54,56,46,49,48,48>>,                    \* 192.168.100 : three labels, a name
           <<49,57,50,46,49,54,56,46,49,48,48,46,50,48,48,46,49,48,48>>, \* five labels, a name
           <<49,57,50,46,49,54,56,46,49,48,48,46,97,98,99>>,        \* 192.168.100.abc : a name
           <<49,46,50,46,51,46,52>>,                                 \* 1.2.3.4 : labels too short anyway
           <<102,101,56,48,58,58,49>>,                               \* fe80::1 : colon
           <<50,48,48,49,46,100,98,56,46,97,97,97>> }                \* 2001.db8.aaa : a name
SampleLabels == {<<97, 98, 99>>, <<97, 45, 57>>, <<48, 122, 48, 49>>}     \* abc, a-9, 0z01
SepBytes == (33..126) \ {47}                                                \* printable, without '/'
\* label structure: one to four labels, well-formed, too short, empty, or with a hyphen at an end, joined by dots
\* (empty labels are consecutive, leading or trailing dots)
LabelPool == SampleLabels \cup {<<>>, <<97>>, <<97, 98>>, <<45, 97, 98>>, <<97, 98, 45>>}
JoinDots(ls) == IF Len(ls) = 1 THEN ls[1] ELSE FoldLeft(LAMBDA acc, x : acc \o <<46>> \o x, ls[1], Tail(ls))
Dotted == {JoinDots(ls) : ls \in UNION {[1..n -> LabelPool] : n \in 1..4}} \ {<<>>}
\* many labels: k well-formed 3-byte labels followed by nothing, or by one or two labels that are too short
\* (15 labels + ".a.b" is a 63-byte name with 17 labels)
ManyLabels == {JoinDots([i \in 1..k |-> <<97, 97, 97>>] \o t)
                 : k \in 1..16, t \in {<<>>, <<<<97>>>>, <<<<97>>, <<98>>>>, <<<<97, 98>>>>, <<<<97, 98>>, <<99>>>>, <<<<48>>, <<57>>>>}}
ExtraNames ==
     Dotted \cup ManyLabels
\cup {Rep(97, n) : n \in 1..70}                                     \* a, aa, ... (63 is the longest valid)
\cup {Rep(97, 3) \o <<46>> \o Rep(98, n) : n \in 55..62}           \* two labels around the length limit
\cup {Rep(97, 30) \o <<46>> \o Rep(48, 3) \o <<46>> \o Rep(45, 1) \o Rep(122, 2)}
\cup IPish
\* well-formed labels joined by every printable byte as "separator" (only '.' is one), two and three labels
\cup {l1 \o <<c>> \o l2 : l1 \in SampleLabels, l2 \in SampleLabels, c \in SepBytes}
\cup {l1 \o <<46>> \o l2 \o <<c>> \o l1 : l1 \in SampleLabels, l2 \in SampleLabels, c \in SepBytes}

Names(p) == IF p = <<0>> THEN ExtraNames ELSE NamesOf(p)

Reply(n) ==
  IF IPAmbiguous(n) /\ Len(n) \in 3..63 /\ (\A i \in 1..Len(Labels(n)) : ValidLabel(Labels(n)[i]))
    THEN [alts |-> {[st |-> 200, code |-> ""], [st |-> 400, code |-> "InvalidBucketName"]}]
  ELSE IF ValidName(n) THEN [st |-> 200, code |-> ""]
  ELSE [st |-> 400, code |-> "InvalidBucketName"]

Ambiguous(n) == "alts" \in DOMAIN Reply(n)

Tour(p) ==
  LET ns == SetToSeq(Names(p))
      valid == {n \in Names(p) : ValidName(n) /\ ~Ambiguous(n)}
      maybe == {n \in Names(p) : Ambiguous(n)} IN
  [h |-> [i \in 1..Len(ns) |-> [op |-> [op |-> "CreateBucket", b |-> ns[i]], r |-> Reply(ns[i])]]
         \o <<[op |-> [op |-> "ListBuckets"], r |-> [st |-> 200, code |-> "", buckets |-> valid, optBuckets |-> maybe]]>>
         \* creating a valid name again is refused: it really exists
         \o (LET vs == SetToSeq(valid) IN
             [i \in 1..Len(vs) |-> [op |-> [op |-> "CreateBucket", b |-> vs[i]], r |-> [st |-> 409, code |-> "BucketAlreadyExists"]]])]

Init == pre \in Groups
Next == UNCHANGED pre
Spec == Init /\ [][Next]_vars
EmitInv == PrintT(ToJson(Tour(pre)))
\* NameRule: the two formulations of the rule agree on every enumerated name
NameRule == \A n \in Names(pre) : ValidName(n) <=> ValidName2(n)
=============================================================================
