------------------------------ MODULE MC_Store ------------------------------
(***************************************************************************)
(* Bounded model of the S3 store for TLC: small universes of buckets,      *)
(* keys and bodies; every operation of S3!Step whose name is in OpNames.   *)
(*                                                                         *)
(* Two uses:                                                               *)
(*  1. model checking the design properties (NeverLost, Frame,             *)
(*     RejectedUnchanged, ReadYourWrite, FreshVid) as action properties;   *)
(*  2. tour generation: `hist` records [op, r] per step, is hidden by      *)
(*     VIEW, and the ACTION_CONSTRAINT Emit prints ToJson(hist') for       *)
(*     EVERY transition of the abstract state graph (BFS, one worker, so   *)
(*     each witness is a shortest path).  The Go harness replays every     *)
(*     printed tour against the real backends.                             *)
(***************************************************************************)
EXTENDS S3, Json

CONSTANTS
  Buckets,      \* set of bucket names (strings)
  KeySetName,   \* which key universe (see KeySet)
  Bodies,       \* set of body atoms (strings); body = <<atom>> or <<>>
  OpNames,      \* operations enabled in Next
  CfgName,      \* which system configuration (see Cfg)
  MaxVids,      \* bound on version ids issued (versioned configurations)
  MaxDepth,     \* bound on history length (0 = none)
  WithEmpty,    \* include the empty body
  Ghosts,       \* TRUE: distinguish states by the set of deleted-and-absent keys
  PartNums,     \* part numbers used by multipart operations
  PartBodies,   \* body atoms of parts
  MaxUploads,   \* bound on upload ids issued
  MaxList,      \* longest part list of a Complete request
  AfterRead,    \* TRUE: refine the view by "the previous request was a HEAD or GET of an object" (what a read may have cached)
  AfterRefusal, \* TRUE: refine the view by "the previous mutating request was refused"
  BadBuckets    \* names that must never be buckets (internal storage names, '.', '..'): every operation
                \* addressed to them is refused and changes nothing (C10)

\* ghost: the (bucket,key)s that once held an object and hold none now.  It
\* does not influence any action; it only refines the VIEW so that the
\* witness histories TLC prints also pass through "written, then deleted"
\* states -- the states in which an implementation may keep residue
\* (directories, metadata files, skiplist nodes) that the abstract state of
\* S3 cannot see.
\* rej: the refused mutating request of the previous step (or NoRefusal).  Like ghost it
\* influences no action; as part of the VIEW it makes TLC continue witness
\* histories THROUGH refused requests (which are self-loops of the abstract
\* graph), so that residue a refusal leaves inside the implementation (a
\* half-updated buffer, a flag, a lock) is exercised by every following step.
NoRefusal == [op |-> "none"]
VARIABLES st, hist, ghost, rej
vars == <<st, hist, ghost, rej>>

KeySet ==
  CASE KeySetName = "a"     -> {<<97>>}
    [] KeySetName = "ab"    -> {<<97>>, <<98>>}
    [] KeySetName = "nest"  -> {<<97>>, <<100, 47, 120>>, <<100, 47, 121>>}     \* a, d/x, d/y
    [] KeySetName = "nest2" -> {<<97>>, <<100, 47, 120>>}                       \* a, d/x
    [] KeySetName = "nest3" -> {<<100, 47, 120>>, <<100, 47, 121>>, <<100, 47, 122>>, <<101>>}   \* d/x, d/y, d/z, e
    \* C10: hostile but canonical keys (no '.', '..' or empty path segments): leading dot, backslash,
    \* percent-encoded bytes, names of the backends' internal storage, a key that looks like "otherbucket/key"
    [] KeySetName = "hostile1" -> {<<46, 104>>, <<97, 92, 98>>, <<97, 37, 50, 70, 98>>}                     \* .h  a\b  a%2Fb
    [] KeySetName = "hostile2" -> {<<95, 109, 101, 116, 97>>, <<109, 101, 116, 97, 100, 97, 116, 97, 47, 120>>,
                                   <<98, 107, 116, 50, 47, 97>>}                                            \* _meta  metadata/x  bkt2/a
    [] KeySetName = "hostile3" -> {<<98, 117, 99, 107, 101, 116, 115>>, <<98, 117, 99, 107, 101, 116, 47, 98, 107, 116, 49>>,
                                   <<97>>}                                                                  \* buckets  bucket/bkt1  a
    \* names the fs backends use for their own temporary / probe files: .gofakes3-upload.tmp  d/.gofakes3-upload.tmp  d/x  .modtime-resolution
    [] KeySetName = "hostile4" -> {<<46, 103, 111, 102, 97, 107, 101, 115, 51, 45, 117, 112, 108, 111, 97, 100, 46, 116, 109, 112>>, <<100, 47, 46, 103, 111, 102, 97, 107, 101, 115, 51, 45, 117, 112, 108, 111, 97, 100, 46, 116, 109, 112>>, <<100, 47, 120>>, <<46, 109, 111, 100, 116, 105, 109, 101, 45, 114, 101, 115, 111, 108, 117, 116, 105, 111, 110>>}
    \* keys that are not valid UTF-8 (a lone 0xFF / 0xFE / Latin-1 0xE9, at the end and inside): r\xFFpt  r\xFEpt  l\xE9  d/\xE9x
    [] KeySetName = "hostile5" -> {<<114, 255, 112, 116>>, <<114, 254, 112, 116>>, <<108, 233>>, <<100, 47, 233, 120>>}
    \* non-canonical keys (key-value backends keep them apart as byte strings)
    [] KeySetName = "dots"     -> {<<46>>, <<46, 46>>, <<97, 47, 46, 46, 47, 98>>, <<98>>, <<97, 47, 47, 98>>}  \* .  ..  a/../b  b  a//b
    \* keys made of the bytes of their bucket's name: b  bkt1  1/t
    [] KeySetName = "bname" -> {<<98>>, <<98, 107, 116, 49>>, <<49, 47, 116>>}
    \* two levels of directories sharing the first: d/e/x  d/y  a
    [] KeySetName = "deep"  -> {<<100, 47, 101, 47, 120>>, <<100, 47, 121>>, <<97>>}
    \* a key that is the directory of another key: d is never written (the fs backends cannot hold both), but it is
    \* read and deleted like any other never-written key
    [] KeySetName = "dirkey" -> {<<100>>, <<100, 47, 101>>, <<100, 47, 120>>, <<100, 47, 101, 47, 120>>}   \* d  d/e  d/x  d/e/x
    \* long keys that share their first 260 bytes ('^' stands for 260 bytes without a delimiter: a path segment longer than NAME_MAX): ^a  ^b  z
    [] KeySetName = "longshared" -> {<<94, 97>>, <<94, 98>>, <<122>>}
    [] KeySetName = "coll"  -> {<<100, 47, 120>>, <<100, 95, 120>>, <<100, 92, 120>>}            \* d/x, d_x, d\x
    [] KeySetName = "pct"   -> {<<97, 47, 98>>, <<97, 37, 50, 70, 98>>}                         \* a/b and a%2Fb: a key that is the URL-escaped spelling of another
    [] KeySetName = "list"  -> {<<97>>, <<97, 47, 49>>, <<97, 45, 98>>, <<98>>} \* a, a/1, a-b, b

CfgBase ==
  CASE CfgName = "mem"      -> [DefaultCfg EXCEPT !.suspDelete = "code", !.suspNone = "None", !.oldNull = "keep"]
    [] CfgName = "memenabled" -> [DefaultCfg EXCEPT !.suspDelete = "code", !.suspNone = "None", !.oldNull = "keep"]
    [] CfgName = "memauto"  -> [DefaultCfg EXCEPT !.auto = TRUE, !.suspDelete = "code", !.suspNone = "None", !.oldNull = "keep"]
    [] CfgName = "plain"    -> [DefaultCfg EXCEPT !.versioned = FALSE, !.paginate = FALSE]
    [] CfgName = "plainerr" -> [DefaultCfg EXCEPT !.versioned = FALSE, !.paginate = FALSE, !.pageErr = TRUE]
    [] CfgName = "plainauto" -> [DefaultCfg EXCEPT !.versioned = FALSE, !.paginate = FALSE, !.auto = TRUE]
    [] CfgName = "single"   -> [DefaultCfg EXCEPT !.versioned = FALSE, !.paginate = FALSE, !.single = "bkt1"]
    [] CfgName = "set"      -> DefaultCfg
Cfg == [CfgBase EXCEPT !.bad = BadBuckets]

Init0 == IF Cfg.single # "" THEN [InitState EXCEPT !.bk = Upd(<<>>, Cfg.single, NewBucket)] ELSE InitState
\* "memenabled": histories start with the bucket created and versioning enabled
PreHist == IF CfgName = "memenabled"
             THEN << [op |-> [op |-> "CreateBucket", b |-> "bkt1"], r |-> [st |-> 200, code |-> ""]],
                     [op |-> [op |-> "PutVersioning", b |-> "bkt1", status |-> "Enabled"], r |-> [st |-> 200, code |-> ""]] >>
             ELSE <<>>
PreState == IF CfgName = "memenabled"
              THEN [InitState EXCEPT !.bk = Upd(<<>>, "bkt1", [ver |-> "Enabled", objs |-> <<>>])]
              ELSE Init0
Init == st = PreState /\ hist = PreHist /\ ghost = {} /\ rej = NoRefusal

BodySet == {<<x>> : x \in Bodies} \cup (IF WithEmpty THEN {<<>>} ELSE {})
NextVid(s) == "v" \o ToString(Cardinality(s.vids) + 1)
NextUid(s) == "u" \o ToString(Cardinality(s.uids) + 1)
NoMeta == <<>>
ListOp(b, d) == [op |-> "ListObjects", b |-> b, v2 |-> FALSE, prefix |-> <<>>, delim |-> d,
                 max |-> 0, marker |-> <<>>, hasMarker |-> FALSE]
MetaA == [m1 |-> "A"]
MetaB == [ct |-> "T", ce |-> "E", cd |-> "D", m2 |-> "B"]
MetaC == [ct |-> "U", m2 |-> "C", m3 |-> "C"]      \* a copy that brings its own, different, metadata
MetaE == [m1 |-> "", m2 |-> ""]                    \* user metadata sent with empty values
\* values that look like the encoding markers of some storage layer (concretized as base64:..., percent escapes, a
\* MIME encoded-word, JSON): they are data and come back as sent
MetaF == [m1 |-> "B64", m2 |-> "PCT", m3 |-> "MIME", ct |-> "JSON"]

\* every version id a client could know: the ones replies revealed
KnownVids(s, b, k) == IF HasB(s, b) THEN {v.vid : v \in {x \in ToSet(Stack(s, b, k)) : ~x.nul /\ SubSeq(x.vid, 1, 1) # "?"}} ELSE {}

\* keys that write operations may address
WKeySet == IF KeySetName = "dirkey" THEN KeySet \ {<<100>>, <<100, 47, 101>>} ELSE KeySet
KeySubsets == SUBSET KeySet \ {{}}
SeqOfSet(S) == SetToSortSeq(S, LexLess)

On(n) == n \in OpNames

Ops(s) ==
     (IF On("CreateBucket") THEN {[op |-> "CreateBucket", b |-> b] : b \in Buckets} ELSE {})
\cup (IF On("HeadBucket")   THEN {[op |-> "HeadBucket", b |-> b] : b \in Buckets} ELSE {})
\cup (IF On("DeleteBucket") THEN {[op |-> "DeleteBucket", b |-> b] : b \in Buckets} ELSE {})
\cup (IF On("ForceDelete")  THEN {[op |-> "DeleteBucket", b |-> b, force |-> TRUE] : b \in Buckets} ELSE {})
\cup (IF On("CondGet")      THEN {[op |-> o, b |-> b, k |-> k, inm |-> bd]
                                    : o \in {"GetObject", "HeadObject"}, b \in Buckets, k \in KeySet, bd \in BodySet} ELSE {})
\cup (IF On("CondGet")      THEN {[op |-> o, b |-> b, k |-> k, ims |-> w]
                                    : o \in {"GetObject", "HeadObject"}, b \in Buckets, k \in KeySet, w \in {"past", "future"}} ELSE {})
\cup (IF On("ListBuckets")  THEN {[op |-> "ListBuckets"]} ELSE {})
\cup (IF On("GetLocation")  THEN {[op |-> "GetLocation", b |-> b] : b \in Buckets} ELSE {})
\cup (IF On("PutObject")    THEN {[op |-> "PutObject", b |-> b, k |-> k, body |-> bd, meta |-> NoMeta, vid |-> NextVid(s)]
                                    : b \in Buckets, k \in WKeySet, bd \in BodySet} ELSE {})
\* an upload that is refused after its body has been read (Content-MD5 of other bytes; body shorter than declared)
\cup (IF On("PutRefused")
        THEN {[op |-> "Upload", target |-> "put", b |-> b, k |-> k, body |-> bd, meta |-> NoMeta, vid |-> "",
               digest |-> dl[1], length |-> dl[2], keyClass |-> "ok", metaClass |-> "ok", failAt |-> -1]
                : b \in Buckets, k \in WKeySet, bd \in BodySet \ {<<>>}, dl \in {<<"wrong", "exact">>, <<"none", "shorter">>}}
        ELSE {})
\cup (IF On("PutMeta")      THEN {[op |-> "PutObject", b |-> b, k |-> k, body |-> bd, meta |-> MetaA, vid |-> NextVid(s)]
                                    : b \in Buckets, k \in WKeySet, bd \in BodySet} ELSE {})
\cup (IF On("PutMetaB")     THEN {[op |-> "PutObject", b |-> b, k |-> k, body |-> bd, meta |-> MetaB, vid |-> NextVid(s)]
                                    : b \in Buckets, k \in WKeySet, bd \in BodySet} ELSE {})
\cup (IF On("PutMetaE")     THEN {[op |-> "PutObject", b |-> b, k |-> k, body |-> bd, meta |-> MetaE, vid |-> NextVid(s)]
                                    : b \in Buckets, k \in WKeySet, bd \in BodySet} ELSE {})
\cup (IF On("PutMetaF")     THEN {[op |-> "PutObject", b |-> b, k |-> k, body |-> bd, meta |-> MetaF, vid |-> NextVid(s)]
                                    : b \in Buckets, k \in WKeySet, bd \in BodySet} ELSE {})
\cup (IF On("PostMeta")     THEN {[op |-> "PostObject", b |-> b, k |-> k, body |-> bd, meta |-> MetaA, vid |-> NextVid(s)]
                                    : b \in Buckets, k \in WKeySet, bd \in BodySet} ELSE {})
\cup (IF On("PostObject")   THEN {[op |-> "PostObject", b |-> b, k |-> k, body |-> bd, meta |-> NoMeta, vid |-> NextVid(s)]
                                    : b \in Buckets, k \in WKeySet, bd \in BodySet} ELSE {})
\cup (IF On("GetObject")    THEN {[op |-> "GetObject", b |-> b, k |-> k] : b \in Buckets, k \in KeySet} ELSE {})
\cup (IF On("HeadObject")   THEN {[op |-> "HeadObject", b |-> b, k |-> k] : b \in Buckets, k \in KeySet} ELSE {})
\cup (IF On("DeleteObject") THEN {[op |-> "DeleteObject", b |-> b, k |-> k,
                                     vid |-> IF HasB(s, b) /\ Enabled(s, b) /\ Stack(s, b, k) = <<>> THEN "" ELSE NextVid(s)]
                                    : b \in Buckets, k \in KeySet} ELSE {})
\cup (IF On("DeleteMulti")  THEN {[op |-> "DeleteMulti", b |-> b,
                                     objs |-> [i \in 1..Cardinality(ks) |-> [k |-> SeqOfSet(ks)[i], vid |-> ""]]]
                                    : b \in Buckets, ks \in KeySubsets} ELSE {})
\cup (IF On("DeleteMultiQuiet") THEN {[op |-> "DeleteMulti", b |-> b, quiet |-> TRUE,
                                     objs |-> [i \in 1..Cardinality(ks) |-> [k |-> SeqOfSet(ks)[i], vid |-> ""]]]
                                    : b \in Buckets, ks \in KeySubsets} ELSE {})
\cup (IF On("CopyObject")   THEN {[op |-> "CopyObject", sb |-> sb, sk |-> sk, b |-> b, k |-> k, meta |-> NoMeta]
                                    : sb \in Buckets, sk \in KeySet, b \in Buckets, k \in WKeySet} ELSE {})
\cup (IF On("CopyMeta")     THEN {[op |-> "CopyObject", sb |-> sb, sk |-> sk, b |-> b, k |-> k, meta |-> MetaC]
                                    : sb \in Buckets, sk \in KeySet, b \in Buckets, k \in WKeySet} ELSE {})
\cup (IF On("ListObjects")  THEN {[op |-> "ListObjects", b |-> b, v2 |-> v2, prefix |-> <<>>, delim |-> d,
                                     max |-> 0, marker |-> <<>>, hasMarker |-> FALSE]
                                    : b \in Buckets, v2 \in BOOLEAN, d \in {<<>>, <<47>>}} ELSE {})
\cup (IF On("GetVersioning") THEN {[op |-> "GetVersioning", b |-> b] : b \in Buckets} ELSE {})
\cup (IF On("PutVersioning") THEN {[op |-> "PutVersioning", b |-> b, status |-> s2]
                                    : b \in Buckets, s2 \in {"Enabled", "Suspended"}} ELSE {})
\cup (IF On("GetObjectVersion") THEN {[op |-> "GetObjectVersion", b |-> b, k |-> k, vid |-> v]
                                    : b \in Buckets, k \in KeySet, v \in UNION {KnownVids(s, b2, k2) : b2 \in Buckets, k2 \in KeySet} \cup {"v0"}} ELSE {})
\cup (IF On("HeadObjectVersion") THEN {[op |-> "HeadObjectVersion", b |-> b, k |-> k, vid |-> v]
                                    : b \in Buckets, k \in KeySet, v \in UNION {KnownVids(s, b2, k2) : b2 \in Buckets, k2 \in KeySet}} ELSE {})
\cup (IF On("DeleteObjectVersion") THEN {[op |-> "DeleteObjectVersion", b |-> b, k |-> k, vid |-> v]
                                    : b \in Buckets, k \in KeySet, v \in UNION {KnownVids(s, b2, k2) : b2 \in Buckets, k2 \in KeySet} \cup {"v0"}} ELSE {})
\cup (IF On("DeleteMultiVersions") THEN {[op |-> "DeleteMulti", b |-> b, objs |-> <<[k |-> k, vid |-> v]>>]
                                    : b \in Buckets, k \in KeySet, v \in UNION {KnownVids(s, b2, k2) : b2 \in Buckets, k2 \in KeySet}} ELSE {})
\* one request mixing an entry that names a version with a plain entry, in both orders (the second key may be the same)
\cup (IF On("DeleteMultiMixed")
        THEN UNION {UNION {{[op |-> "DeleteMulti", b |-> bk[1], objs |-> <<[k |-> bk[2], vid |-> v], [k |-> k2, vid |-> ""]>>],
                            [op |-> "DeleteMulti", b |-> bk[1], objs |-> <<[k |-> k2, vid |-> ""], [k |-> bk[2], vid |-> v]>>]}
                           : k2 \in KeySet, v \in KnownVids(s, bk[1], bk[2])}
                    : bk \in Buckets \X KeySet}
        ELSE {})
\cup (IF On("ListVersions") THEN {[op |-> "ListVersions", b |-> b, prefix |-> <<>>, delim |-> <<>>] : b \in Buckets} ELSE {})

\* ---- multipart operations ----
KnownUids(s) == s.uids \cup {"u0"}
\* part lists: every arrangement (any order) of up to MaxList distinct part
\* numbers, known or not (7 is never uploaded), each quoting the ETag of some
\* body (the current upload of the part, a stale one, or one never uploaded)
PartEntries == {[n |-> n, body |-> <<pb>>] : n \in PartNums \cup {7}, pb \in PartBodies}
RECURSIVE ListsOfLen(_)
ListsOfLen(n) == IF n = 0 THEN {<<>>}
                 ELSE {Append(l, e) : l \in ListsOfLen(n - 1), e \in PartEntries}
DistinctNs(l) == \A i, j \in 1..Len(l) : i # j => l[i].n # l[j].n
PartLists == {l \in UNION {ListsOfLen(n) : n \in 1..MaxList} : DistinctNs(l)}

MpOps(s) ==
     (IF On("Initiate") /\ Cardinality(s.uids) < MaxUploads
        THEN {[op |-> "Initiate", b |-> b, k |-> k, meta |-> MetaA, uid |-> NextUid(s)] : b \in Buckets, k \in WKeySet} ELSE {})
\cup (IF On("UploadPart")
        THEN {[op |-> "UploadPart", b |-> b, k |-> k, uid |-> u, n |-> n, body |-> <<pb>>]
                : b \in Buckets, k \in KeySet, u \in KnownUids(s), n \in PartNums, pb \in PartBodies} ELSE {})
\* a part upload that is refused after its body has been read (Content-MD5 of other bytes; body shorter than declared):
\* whatever was stored under that number before is still there
\cup (IF On("UploadPartRefused")
        THEN {[op |-> "Upload", target |-> "part", b |-> b, k |-> k, uid |-> u, n |-> n, body |-> <<pb>>, meta |-> <<>>, vid |-> "",
               digest |-> dl[1], length |-> dl[2], keyClass |-> "ok", metaClass |-> "ok", failAt |-> -1]
                : b \in Buckets, k \in KeySet, u \in KnownUids(s), n \in PartNums, pb \in PartBodies,
                  dl \in {<<"wrong", "exact">>, <<"none", "shorter">>}} ELSE {})
\cup (IF On("Complete")
        THEN {[op |-> "Complete", b |-> b, k |-> k, uid |-> u, list |-> l, vid |-> NextVid(s)]
                : b \in Buckets, k \in KeySet, u \in KnownUids(s), l \in PartLists} ELSE {})
\cup (IF On("Abort")
        THEN {[op |-> "Abort", b |-> b, k |-> k, uid |-> u] : b \in Buckets, k \in KeySet, u \in KnownUids(s)} ELSE {})
\cup (IF On("ListParts")
        THEN {[op |-> "ListParts", b |-> b, k |-> k, uid |-> u, marker |-> 0, max |-> 0]
                : b \in Buckets, k \in KeySet, u \in KnownUids(s)} ELSE {})
\cup (IF On("ListUploads")
        THEN {[op |-> "ListUploads", b |-> b, prefix |-> <<>>, delim |-> d, max |-> 0]
                : b \in Buckets \cap s.mpb, d \in {<<>>, <<47>>}} ELSE {})

\* ---- C10: operations addressed to names that are a backend's own storage ----
BadOps(s) ==
  IF BadBuckets = {} THEN {} ELSE
     {[op |-> "CreateBucket", b |-> b, invalid |-> TRUE] : b \in BadBuckets}
\cup {[op |-> "DeleteBucket", b |-> b] : b \in BadBuckets}
\cup {[op |-> "HeadBucket", b |-> b] : b \in BadBuckets}
\cup {[op |-> "PutObject", b |-> b, k |-> k, body |-> <<"x2">>, meta |-> NoMeta, vid |-> ""]
        : b \in BadBuckets, k \in KeySet \cup {<<98, 117, 99, 107, 101, 116, 47, 98, 107, 116, 49>>}}   \* (incl. key bucket/bkt1)
\cup {[op |-> "GetObject", b |-> b, k |-> k] : b \in BadBuckets, k \in KeySet \cup {<<98, 117, 99, 107, 101, 116, 47, 98, 107, 116, 49>>}}
\cup {[op |-> "DeleteObject", b |-> b, k |-> k, vid |-> ""] : b \in BadBuckets, k \in KeySet \cup {<<98, 117, 99, 107, 101, 116, 47, 98, 107, 116, 49>>}}
\cup {ListOp(b, <<>>) : b \in BadBuckets}
\* ... nor can they be read through a copy source
\cup {[op |-> "CopyObject", sb |-> b, sk |-> k, b |-> b2, k |-> <<122>>, meta |-> NoMeta, srcInternal |-> TRUE]
        : b \in BadBuckets, b2 \in Buckets, k \in KeySet \cup {<<98, 117, 99, 107, 101, 116, 47, 98, 107, 116, 49>>}}

VidBound(s, op) ==
  (op.op \in {"PutObject", "PostObject", "CopyObject", "DeleteObject", "DeleteMulti"} /\ HasB(s, op.b) /\ Enabled(s, op.b))
     => Cardinality(s.vids) < MaxVids

Next ==
  /\ MaxDepth = 0 \/ Len(hist) < MaxDepth
  /\ \E op \in Ops(st) \cup MpOps(st) \cup BadOps(st) :
       /\ VidBound(st, op)
       /\ \E res \in Step(st, Cfg, op) :
            /\ st' = res.st
            /\ hist' = Append(hist, [op |-> op, r |-> res.r])
            /\ rej' = IF AfterRefusal /\ op.op \in Mutating /\ Refused(res.r) THEN op
                       ELSE IF AfterRead /\ op.op \in {"HeadObject", "GetObject"} THEN op
                       ELSE NoRefusal
            /\ ghost' = IF Ghosts
                          THEN {bk \in ghost \cup AllBK(st) : StackAt(res.st, bk[1], bk[2]) = <<>>}
                          ELSE {}

Spec == Init /\ [][Next]_vars

View == <<st, ghost, rej>>

\* ---- audit: after a mutating last step the harness re-reads everything a
\* client can observe; the expected replies are computed by Step itself ----
TheReply(s, op) == (CHOOSE res \in Step(s, Cfg, op) : TRUE).r
WithReply(s, ops) == [i \in 1..Len(ops) |-> [op |-> ops[i], r |-> TheReply(s, ops[i])]]
AuditOps(s) ==
  LET present == SetToSeq({b \in Buckets : HasB(s, b)})
      absent  == SetToSeq({b \in Buckets : ~HasB(s, b)})
      keys    == SetToSeq(KeySet)
      PerBucket(b) ==
        <<ListOp(b, <<>>), ListOp(b, <<47>>)>>
        \o [i \in 1..Len(keys) |-> [op |-> "GetObject", b |-> b, k |-> keys[i]]]
        \o [i \in 1..Len(keys) |-> [op |-> "HeadObject", b |-> b, k |-> keys[i]]]
        \o (IF Cfg.versioned
              THEN <<[op |-> "GetVersioning", b |-> b],
                     [op |-> "ListVersions", b |-> b, prefix |-> <<>>, delim |-> <<>>]>>
                   \o Flatten([i \in 1..Len(keys) |->
                         LET vs == SetToSeq(KnownVids(s, b, keys[i])) IN
                         [j \in 1..Len(vs) |-> [op |-> "GetObjectVersion", b |-> b, k |-> keys[i], vid |-> vs[j]]]])
              ELSE <<>>)
  IN (IF Cfg.single = "" THEN <<[op |-> "ListBuckets"]>> ELSE <<>>)
     \o Flatten([i \in 1..Len(present) |-> PerBucket(present[i])])
     \o (IF Cfg.auto THEN <<>> ELSE [i \in 1..Len(absent) |-> [op |-> "HeadBucket", b |-> absent[i]]])
     \o (LET us == SetToSeq(DOMAIN s.up)
             mb == SetToSeq({b \in s.mpb : HasB(s, b)}) IN
         [i \in 1..Len(us) |-> [op |-> "ListParts", b |-> s.up[us[i]].b, k |-> s.up[us[i]].k, uid |-> us[i],
                                 marker |-> 0, max |-> 0]]
         \o Flatten([i \in 1..Len(mb) |->
               <<[op |-> "ListUploads", b |-> mb[i], prefix |-> <<>>, delim |-> <<>>, max |-> 0],
                 [op |-> "ListUploads", b |-> mb[i], prefix |-> <<>>, delim |-> <<47>>, max |-> 0]>>]))
Audit(s) == WithReply(s, AuditOps(s))

Emit == PrintT(ToJson([h |-> hist',
                       a |-> IF hist'[Len(hist')].op.op \in Mutating THEN Audit(st') ELSE <<>>]))
\* for crash-point enumeration (C15): the history, the audit of the state before
\* the last step and the audit of the state after it
EmitCrash == hist'[Len(hist')].op.op \in Mutating =>
               PrintT(ToJson([h |-> hist', a0 |-> Audit(st), a |-> Audit(st')]))
\* ---- C10: path-like keys on the fs backends.  A key with '.', '..' or empty segments may be refused
\* or aliased to another key OF THE SAME BUCKET; whatever happens, every other bucket and every key
\* that is not an alias stays as it was and the server keeps answering.  For every reachable state
\* and every such operation one tour is printed: the history, the operation (any complete reply is
\* admissible), and an audit of all buckets' canary keys, the bucket list and the other buckets' listings.
EscapeKeys == { <<46, 46>>, <<46, 46, 47, 120>>, <<46, 46, 47, 98, 107, 116, 50, 47, 97>>,          \* ..  ../x  ../bkt2/a
                <<122, 47, 46, 46, 47, 46, 46, 47, 98, 107, 116, 50, 47, 97>>,                        \* z/../../bkt2/a
                <<46, 47, 122>>, <<122, 47, 46, 47, 121>>, <<122, 47, 47, 121>>, <<47, 122>>,         \* ./z  z/./y  z//y  /z
                <<46, 46, 47, 46, 46, 47, 109, 101, 116, 97, 100, 97, 116, 97, 47, 98, 107, 116, 50, 47, 120>>,  \* ../../metadata/bkt2/x
                <<46, 46, 92, 120>>, <<46>> }                                                         \* ..\x  .
AnyReply == [st |-> 0, code |-> "*"]
\* listing prefixes that walk out of the bucket: no stored key starts with any of them, so a listing that is
\* answered at all is empty (in particular it shows nothing of another bucket or of the metadata store)
EscapePrefixes == { <<46, 46>>,
                    <<46, 46, 47>>,
                    <<46, 46, 47, 98, 107, 116, 50>>,
                    <<46, 46, 47, 98, 107, 116, 50, 47>>,
                    <<46, 46, 47, 46, 46, 47, 109, 101, 116, 97, 100, 97, 116, 97, 47>>,
                    <<46, 46, 47, 46, 46, 47, 109, 101, 116, 97, 100, 97, 116, 97, 47, 98, 107, 116, 50, 47>>,
                    <<46, 47>>,
                    <<122, 47, 46, 46, 47>>,
                    <<46, 46, 47, 98, 107, 116>>,
                    <<46, 46, 47, 98, 107, 116, 49, 47>> }
EscapeListOps ==
  {[op |-> "ListObjects", b |-> b, v2 |-> FALSE, prefix |-> p, delim |-> d, max |-> 0, marker |-> <<>>, hasMarker |-> FALSE]
     : b \in Buckets, p \in EscapePrefixes, d \in {<<>>, <<47>>}}
EmptyListingOrRefusal == [st |-> 0, code |-> "*", keys |-> <<>>, prefixes |-> <<>>, optPrefixes |-> <<>>]
EscapeOps ==
  UNION {{ [op |-> "PutObject", b |-> b, k |-> e, body |-> <<"x2">>, meta |-> NoMeta, vid |-> ""],
           [op |-> "GetObject", b |-> b, k |-> e], [op |-> "HeadObject", b |-> b, k |-> e],
           [op |-> "DeleteObject", b |-> b, k |-> e, vid |-> ""],
           [op |-> "DeleteMulti", b |-> b, objs |-> <<[k |-> e, vid |-> ""]>>],
           [op |-> "CopyObject", sb |-> b, sk |-> e, b |-> b, k |-> <<122, 122>>, meta |-> NoMeta],
           [op |-> "CopyObject", sb |-> b, sk |-> <<97>>, b |-> b, k |-> e, meta |-> NoMeta] }
          : b \in Buckets, e \in EscapeKeys}
EscapeAuditOps(s, b) ==
  LET present == SetToSeq({x \in Buckets : HasB(s, x)})
      keys == SetToSeq(KeySet) IN
  <<[op |-> "ListBuckets"]>>
  \o Flatten([i \in 1..Len(present) |->
        [j \in 1..Len(keys) |-> [op |-> "GetObject", b |-> present[i], k |-> keys[j]]]
        \o (IF present[i] # b THEN <<ListOp(present[i], <<>>), ListOp(present[i], <<47>>)>> ELSE <<>>)])
EmitEscape ==
  /\ \A o \in EscapeOps :
       PrintT(ToJson([h |-> Append(hist, [op |-> o, r |-> AnyReply]), a |-> WithReply(st, EscapeAuditOps(st, o.b))]))
  /\ \A o \in EscapeListOps :
       PrintT(ToJson([h |-> Append(hist, [op |-> o, r |-> EmptyListingOrRefusal]), a |-> <<>>]))

\* for walk recording: the history and the projection of the state it reaches,
\* one line per distinct state (printed when the state is first reached)
EmitState == PrintT(ToJson([h |-> hist, fin |-> Snap(st)]))      \* an INVARIANT: once per distinct state

\* ---- design properties, checked on every transition ----
LastOp  == hist'[Len(hist')].op
LastRes == [st |-> st', r |-> hist'[Len(hist')].r]
NeverLost         == [][NeverLostStep(st, LastOp, LastRes)]_vars
Frame             == [][FrameStep(st, LastOp, LastRes)]_vars
RejectedUnchanged == [][RejectedUnchangedStep(st, Cfg, LastOp, LastRes)]_vars
FreshVid          == [][FreshVidStep(st, LastOp, LastRes)]_vars
ReadYourWrite     == [][ReadYourWriteStep(st, LastOp, LastRes)]_vars

\* state invariants
TypeOK ==
  /\ \A b \in DOMAIN st.bk : st.bk[b].ver \in {"None", "Enabled", "Suspended"}
  /\ \A b \in DOMAIN st.bk : \A k \in DOMAIN st.bk[b].objs : st.bk[b].objs[k] # <<>>
\* a bucket that never had versioning holds at most one (null) version per key
NeverVersionedFlat ==
  \A b \in DOMAIN st.bk : st.bk[b].ver = "None" =>
     \A k \in DOMAIN st.bk[b].objs : Len(st.bk[b].objs[k]) = 1 /\ st.bk[b].objs[k][1].nul
\* version ids are unique across the store
UniqueVids ==
  \A x, y \in AllVersions(st) : (x.v.vid = y.v.vid /\ ~x.v.nul /\ ~y.v.nul) => x = y
=============================================================================
